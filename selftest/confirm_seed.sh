#!/bin/sh
# usage: confirm_seed.sh <worktree> <property id> <seed name> "<needs>"
# Confirms a seeded change produced in a scratch worktree: demo passes on /repo (unchanged), fails on the worktree,
# and the pinned test suite (219 tests) still passes with the change.  Files it under /verif/seeded/<name>/.
WT="$1"; ID="$2"; NAME="$3"; NEEDS="$4"
DEMO="${WT}_demo.py"; PATCH="${WT}_patch.diff"
git -C "$WT" diff > "$PATCH.mine"
[ -s "$PATCH.mine" ] || { echo "no change in worktree"; exit 1; }
cd /tmp && PYTHONPATH=/repo /venv/bin/python "$DEMO" > /tmp/demo_base.log 2>&1; base=$?
PYTHONPATH="$WT" /venv/bin/python "$DEMO" > /tmp/demo_mut.log 2>&1; mut=$?
RUN="${WT}_confirm_run"; rm -rf "$RUN"; mkdir -p "$RUN/docs/_static/imgs"; cp -r "$WT/test" "$RUN/"
(cd "$RUN" && PYTHONPATH="$WT" /venv/bin/python -m pytest -q -p no:cacheprovider test 2>&1 | tail -1) > /tmp/tests_mut.log
rm -rf "$RUN"
echo "demo on unchanged: rc=$base ; demo on changed: rc=$mut ; tests with change: $(cat /tmp/tests_mut.log)"
if [ $base -eq 0 ] && [ $mut -ne 0 ] && grep -q "219 passed" /tmp/tests_mut.log; then
  D=/verif/seeded/$NAME; mkdir -p "$D"
  cp "$PATCH.mine" "$D/patch.diff"; cp "$DEMO" "$D/demo.py"
  /venv/bin/python - "$D" "$ID" "$NEEDS" <<'PY'
import json, sys
d, pid, needs = sys.argv[1:4]
json.dump({"property": pid, "needs": needs,
           "confirmed": {"demo_on_unchanged_tree": "exit 0", "demo_with_change": "exit != 0",
                         "pinned_tests_with_change": "219 passed (10 environment failures unchanged)"},
           "ran": ["PYTHONPATH=/repo python demo.py", "PYTHONPATH=<worktree> python demo.py",
                   "pytest test (copy of test/ in a scratch dir, PYTHONPATH=<worktree>)"],
           "origin": "independent sub-agent given only the property text"}, open(d + "/meta.json", "w"), indent=1)
PY
  echo "filed under $D"
else
  echo "NOT CONFIRMED"; tail -5 /tmp/demo_base.log /tmp/demo_mut.log; exit 1
fi
