#!/bin/sh
# usage: try_seed.sh <patch.diff> <property id> [tier]   -- applies the patch to /repo, runs the check, reverts.
P="$1"; ID="$2"; TIER="${3:-quick}"
cd /repo || exit 2
git diff --quiet || { echo "/repo has uncommitted changes"; exit 2; }
git apply "$P" || { echo "patch does not apply"; exit 2; }
cd /verif && VERIF_KEEP= ./check "$ID" --tier "$TIER" > "/tmp/seedrun-$ID.log" 2>&1
rc=$?
git -C /repo checkout -- .
git -C /verif checkout -- evidence 2>/dev/null
rm -f /verif/replays/$ID-*
echo "check $ID on $(basename $(dirname $P))/$(basename $P): rc=$rc"
grep -c '^VIOLATION' "/tmp/seedrun-$ID.log" | sed 's/^/violations: /'
grep '^VIOLATION' "/tmp/seedrun-$ID.log" | head -3
grep 'MACHINERY' "/tmp/seedrun-$ID.log" | head -3
exit $rc
