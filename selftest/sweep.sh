#!/bin/sh
# usage: [CHECKS="C03 C07"] sweep.sh <tier> <seed>...   -- runs every registered check once per seed, prints one line per run
TIER="$1"; shift
for s in "$@"; do
  for p in ${CHECKS:-C01 C02 C03 C04 C05 C06 C07 C08 C09 C10 C11 C12 C13 C14 C15 C16 C17 C18 C19 C20}; do
    t0=$(date +%s)
    VERIF_SEED=$s ./check $p --tier $TIER > /tmp/sweep-$p-$s.log 2>&1; rc=$?
    t1=$(date +%s)
    echo "seed=$s $p rc=$rc wall=$((t1-t0))s violations=$(grep -c '^VIOLATION' /tmp/sweep-$p-$s.log) known=$(grep -c '^KNOWN-FINDING' /tmp/sweep-$p-$s.log) $(grep MACHINERY /tmp/sweep-$p-$s.log | head -1 | cut -c1-150)"
  done
done
