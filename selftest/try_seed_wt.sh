#!/bin/sh
# usage: try_seed_wt.sh <seed name> [property id] [tier]  -- like try_seed.sh but on a scratch worktree of /repo's HEAD
# (VERIF_REPO), so /repo's working tree is never touched; evidence and replay files written by the run are discarded.
NAME="$1"; D=/verif/seeded/$NAME
ID="${2:-$(/venv/bin/python -c "import json,sys; print(json.load(open(sys.argv[1]))['property'])" "$D/meta.json")}"; TIER="${3:-quick}"
WT=$(mktemp -d /tmp/tryseed-XXXXXX)
git -C /repo worktree add -q --detach "$WT/repo" HEAD || exit 2
git -C "$WT/repo" apply "$D/patch.diff" || { echo "$NAME: patch does not apply"; git -C /repo worktree remove --force "$WT/repo"; rm -rf "$WT"; exit 2; }
cp /verif/evidence/$ID.json "$WT/evidence.bak" 2>/dev/null
(cd /verif && VERIF_REPO="$WT/repo" ./check "$ID" --tier "$TIER" > "$WT/log" 2>&1); rc=$?
cp "$WT/evidence.bak" /verif/evidence/$ID.json 2>/dev/null; rm -f /verif/replays/$ID-*
echo "check $ID on $NAME: rc=$rc violations=$(grep -c '^VIOLATION' "$WT/log")"
grep '^VIOLATION' "$WT/log" | head -2 | cut -c1-330
grep 'MACHINERY' "$WT/log" | head -2
git -C /repo worktree remove --force "$WT/repo"; rm -rf "$WT"
exit $rc
