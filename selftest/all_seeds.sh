#!/bin/sh
# usage: all_seeds.sh <verif seed> [tier]  -- every filed seed against the check of its property, on a scratch copy of
# /repo's HEAD (never touches /repo's working tree); one line per seed: detected / MISSED.  Needs no network.
SEED="${1:-0}"; TIER="${2:-quick}"
DIR="$(cd "$(dirname "$0")/.." && pwd)"
WT=$(mktemp -d /tmp/seedsweep-XXXXXX)
git -C /repo worktree add -q --detach "$WT/repo" HEAD || exit 2
trap 'git -C /repo worktree remove --force "$WT/repo"; rm -rf "$WT"' EXIT
for d in /verif/seeded/*/; do
  name=$(basename "$d")
  id=$(/venv/bin/python -c "import json,sys; print(json.load(open(sys.argv[1]))['property'])" "$d/meta.json")
  git -C "$WT/repo" checkout -q -- . && git -C "$WT/repo" apply "$d/patch.diff" || { echo "$name: patch does not apply"; continue; }
  t0=$(date +%s)
  (cd "$DIR" && VERIF_REPO="$WT/repo" VERIF_SEED=$SEED ./check "$id" --tier "$TIER" > "$WT/log" 2>&1); rc=$?
  t1=$(date +%s)
  n=$(grep -c '^VIOLATION' "$WT/log")
  if [ $rc -eq 1 ] && [ "$n" -gt 0 ]; then echo "$name: detected by $id ($n violations, $((t1-t0))s): $(grep -m1 '^VIOLATION' "$WT/log" | cut -c1-160)";
  else echo "$name: MISSED by $id (rc=$rc, $((t1-t0))s) $(grep -m1 MACHINERY "$WT/log" | cut -c1-160)"; fi
done
