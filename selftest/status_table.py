"""prints one line per evidence file: id, wall time, states, transitions, observations validated, verdict clauses"""
import glob, json, os
for p in sorted(glob.glob(os.path.join(os.path.dirname(os.path.dirname(os.path.abspath(__file__))), "evidence", "C*.json"))):
    e = json.load(open(p))
    c = e.get("coverage", {})
    print("| %s | %s s | %s | %s | %s | known=%s |" % (
        e.get("property_id", os.path.basename(p)[:3]), round(e.get("wall_s", 0)), c.get("states"), c.get("transitions"),
        c.get("traces_validated_against_impl"), e.get("known_findings") or c.get("known_findings") or "-"))
