#!/bin/sh
# runs the pinned test suite on /repo's working tree (guard off) from a scratch directory; prints the summary line
RUN=$(mktemp -d /tmp/repotests-XXXXXX); mkdir -p "$RUN/docs/_static/imgs"; cp -r /repo/test "$RUN/"
(cd /repo && find docs/_static/imgs -type d) | while read d; do mkdir -p "$RUN/$d"; done
(cd "$RUN" && env -u DISCOPY_VERIF PYTHONPATH=/repo /venv/bin/python -m pytest -q -p no:cacheprovider test 2>&1 | tail -1)
rm -rf "$RUN"
