#!/bin/sh
# Offline setup: parse every TLA+ module with SANY and byte-compile the harness.
cd "$(dirname "$0")" || exit 1
mkdir -p evidence replays .work
fail=0
cd spec
for f in *.tla; do
  out=$(java -cp /opt/veriftools/tla/tla2tools.jar:/opt/veriftools/tla/CommunityModules-deps.jar tla2sany.SANY "$f" 2>&1)
  if echo "$out" | grep -q -E "Semantic errors|Parse Error|Fatal errors|Could not|Lexical error"; then
    echo "SANY failed on $f"; echo "$out" | tail -20; fail=1
  fi
done
cd ..
PYTHONDONTWRITEBYTECODE=1 /venv/bin/python - <<'PY' || fail=1
import pathlib, sys
ok = True
for p in pathlib.Path("harness").rglob("*.py"):
    try:
        compile(p.read_text(), str(p), "exec")
    except SyntaxError as e:
        print("syntax error", p, e); ok = False
sys.exit(0 if ok else 1)
PY
DISCOPY_VERIF=1 PYTHONPATH=/repo /venv/bin/python -c "from discopy import _verif; assert _verif.ENABLED" || fail=1
[ $fail = 0 ] && echo "setup ok"
exit $fail
