"""The projection pi from DisCoPy values to the abstract (JSON / TLA+) values of the specs."""
import hashlib
import json


class Names:
    """Per-run table mapping python names to positive integers (stable, first come first served)."""
    def __init__(self, preset=None):
        self.tab = dict(preset or {})

    def __call__(self, key):
        if key not in self.tab:
            self.tab[key] = len(self.tab) + 1
        return self.tab[key]


def atom_key(ob):
    name = getattr(ob, "name", None)
    dim = getattr(ob, "dim", None)
    if name is None:
        return "int:%r" % (ob,) if isinstance(ob, int) else "obj:%r" % (ob,)
    return "%s:%r" % (type(ob).__name__ if dim is not None else "Ob", name)


def proj_atom(ob, names):
    z = getattr(ob, "z", 0)
    return [names(atom_key(ob)), int(z or 0)]


def proj_ty(t, names):
    try:
        objs = t.objects
    except AttributeError:
        objs = list(t)
    return [proj_atom(o, names) for o in objs]


def box_id(box, names):
    name = getattr(box, "name", None)
    if isinstance(name, str) and name[:1] == "b" and name[1:].isdigit():
        return int(name[1:])
    return 1000 + names("box:%r" % (name,))


KINDS = {"Box": 0, "Swap": 1, "Cup": 2, "Cap": 3}


def proj_box(box, names):
    kind = KINDS.get(type(box).__name__, 0)
    return {"id": box_id(box, names) if kind == 0 else 0, "kind": kind,
            "dom": proj_ty(box.dom, names), "cod": proj_ty(box.cod, names),
            "dg": int(bool(getattr(box, "_dagger", False)))}


def proj_diagram(d, names, layers=True):
    out = {"dom": proj_ty(d.dom, names), "cod": proj_ty(d.cod, names),
           "boxes": [proj_box(b, names) for b in d.boxes],
           "offs": [int(o) for o in d.offsets]}
    if layers:
        lay = d.layers
        out["ldom"] = proj_ty(lay.dom, names)
        out["lcod"] = proj_ty(lay.cod, names)
        out["layers"] = [{"left": proj_ty(l._left, names), "bdom": proj_ty(l._box.dom, names),
                          "bcod": proj_ty(l._box.cod, names), "right": proj_ty(l._right, names)}
                         for l in lay.boxes]
    return out


EMPTY_OBS = {"dom": [], "cod": [], "boxes": [], "offs": [], "ldom": [], "lcod": [], "layers": []}


def digest(obj):
    return hashlib.sha1(json.dumps(obj, sort_keys=True).encode()).hexdigest()


class DiagramSink:
    """Sink for hook H2: collects the projection of every distinct diagram constructed."""
    def __init__(self, names=None):
        self.names = names or Names()
        self.seen = {}
        self.total = 0
        self.errors = []

    def __call__(self, event, obj=None, *args, **kw):
        if event != "diagram":
            return
        self.total += 1
        try:
            rec = proj_diagram(obj, self.names)
            rec["cls"] = type(obj).__module__ + "." + type(obj).__name__
        except Exception as e:  # projection failure is itself an observation
            self.errors.append(repr(e)[:300])
            return
        h = digest(rec)
        if h not in self.seen:
            self.seen[h] = rec

    def install(self):
        from discopy import _verif
        if not _verif.ENABLED:
            raise RuntimeError("DISCOPY_VERIF=1 must be set before discopy is imported")
        _verif.SINK = self
        return self

    def uninstall(self):
        from discopy import _verif
        _verif.SINK = None
