"""Adapters turning abstract diagrams of the specs into real DisCoPy values (free categories)."""
from harness.project import Names


class MonoidalAdapter:
    """monoidal.Diagram over atoms <<n, 0>> ; atom 1 = 'x', 2 = 'y', 3 = 'z'."""
    cls = "monoidal"
    ATOMS = {1: "x", 2: "y", 3: "z", 4: "w"}

    def __init__(self):
        from discopy import monoidal
        self.m = monoidal
        self.names = Names({"Ob:%r" % v: k for k, v in self.ATOMS.items()})

    def ob(self, a):
        return self.m.Ob(self.ATOMS[a[0]])

    def ty(self, t):
        return self.m.Ty(*[self.ob(a) for a in t])

    def box(self, b):
        if b["dg"]:
            return self.m.Box("b%d" % b["id"], self.ty(b["cod"]), self.ty(b["dom"])).dagger()
        return self.m.Box("b%d" % b["id"], self.ty(b["dom"]), self.ty(b["cod"]))

    def id(self, t):
        return self.m.Id(self.ty(t))

    def build(self, d, how=0):
        """how = 0: through the constructor (type scan); 1: by composing whiskered boxes."""
        if how == 0:
            return self.m.Diagram(self.ty(d["dom"]), self.ty(d["cod"]),
                                  [self.box(b) for b in d["boxes"]], list(d["offs"]))
        out = self.id(d["dom"])
        for b, o in zip(d["boxes"], d["offs"]):
            box = self.box(b)
            out = out >> self.m.Id(out.cod[:o]) @ box @ self.m.Id(out.cod[o + len(box.dom):])
        return out


class RigidAdapter(MonoidalAdapter):
    cls = "rigid"

    def __init__(self):
        from discopy import rigid
        self.m = rigid
        self.names = Names({"Ob:%r" % v: k for k, v in self.ATOMS.items()})

    def ob(self, a):
        return self.m.Ob(self.ATOMS[a[0]], a[1])

    def box(self, b):
        kind = b.get("kind", 0)
        if kind == 1:
            return self.m.Swap(self.ty(b["dom"][:1]), self.ty(b["dom"][1:]))
        if kind == 2:
            return self.m.Cup(self.ty(b["dom"][:1]), self.ty(b["dom"][1:]))
        if kind == 3:
            return self.m.Cap(self.ty(b["cod"][:1]), self.ty(b["cod"][1:]))
        return super().box(b)
