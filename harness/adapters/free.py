"""Adapters turning abstract diagrams of the specs into real DisCoPy values (free categories)."""
from harness.project import Names


class MonoidalAdapter:
    """monoidal.Diagram over atoms <<n, 0>> ; atom 1 = 'x', 2 = 'y', 3 = 'z'."""
    cls = "monoidal"
    ATOMS = {1: "x", 2: "y", 3: "z", 4: "w"}

    def __init__(self):
        from discopy import monoidal
        self.m = monoidal
        self.names = Names({"Ob:%r" % v: k for k, v in self.ATOMS.items()})

    def ob(self, a):
        return self.m.Ob(self.ATOMS[a[0]])

    def ty(self, t):
        return self.m.Ty(*[self.ob(a) for a in t])

    def box(self, b):
        if b["dg"]:
            return self.m.Box("b%d" % b["id"], self.ty(b["cod"]), self.ty(b["dom"])).dagger()
        return self.m.Box("b%d" % b["id"], self.ty(b["dom"]), self.ty(b["cod"]))

    def id(self, t):
        return self.m.Id(self.ty(t))

    def construct(self, real, dom, cod):
        """the public constructor on the boxes and offsets of a real diagram, with the given types"""
        return self.m.Diagram(dom, cod, real.boxes, real.offsets)

    def build(self, d, how=0):
        """how = 0: through the constructor (type scan); 1: by composing whiskered boxes."""
        if how == 0:
            return self.m.Diagram(self.ty(d["dom"]), self.ty(d["cod"]),
                                  [self.box(b) for b in d["boxes"]], list(d["offs"]))
        out = self.id(d["dom"])
        for b, o in zip(d["boxes"], d["offs"]):
            box = self.box(b)
            out = out >> self.m.Id(out.cod[:o]) @ box @ self.m.Id(out.cod[o + len(box.dom):])
        return out


class RigidAdapter(MonoidalAdapter):
    cls = "rigid"

    def __init__(self):
        from discopy import rigid
        self.m = rigid
        self.names = Names(dict({"Ob:%r" % v: k for k, v in self.ATOMS.items()}, **{"Ob:1": self.SELF_DUAL}))

    SELF_DUAL = 9            # abstract name of the self-dual object of rigid.PRO (x.l == x == x.r); only in pure PRO types

    def ob(self, a):
        if a[0] == self.SELF_DUAL:
            return self.m.Ob(1, 0)
        return self.m.Ob(self.ATOMS[a[0]], a[1])

    def ty(self, t):
        if len(t) and all(a[0] == self.SELF_DUAL for a in t):
            return self.m.PRO(len(t))
        return super().ty(t)

    def box(self, b):
        kind = b.get("kind", 0)
        if kind == 1:
            return self.m.Swap(self.ty(b["dom"][:1]), self.ty(b["dom"][1:]))
        if kind == 2:
            return self.m.Cup(self.ty(b["dom"][:1]), self.ty(b["dom"][1:]))
        if kind == 3:
            return self.m.Cap(self.ty(b["cod"][:1]), self.ty(b["cod"][1:]))
        return super().box(b)


class CatAdapter:
    """cat.Arrow: objects are one-atom types, arrows are diagrams with all offsets zero."""
    cls = "cat"
    ATOMS = {1: "x", 2: "y", 3: "z", 4: "w"}
    OPS = {"gen", "ctor", "retype", "then", "thenSelf", "dagger", "slice", "rslice", "index"}

    def __init__(self):
        from discopy import cat
        self.m = cat
        self.names = Names({"Ob:%r" % v: k for k, v in self.ATOMS.items()})

    def ob(self, a):
        return self.m.Ob(self.ATOMS[a[0]])

    def ty(self, t):
        if len(t) != 1:
            raise ValueError("objects of the free category are one-atom types")
        return self.ob(t[0])

    def box(self, b):
        if b["dg"]:
            return self.m.Box("b%d" % b["id"], self.ty(b["cod"]), self.ty(b["dom"])).dagger()
        return self.m.Box("b%d" % b["id"], self.ty(b["dom"]), self.ty(b["cod"]))

    def id(self, t):
        return self.m.Id(self.ty(t))

    def construct(self, real, dom, cod):
        return self.m.Arrow(dom, cod, real.boxes)

    def build(self, d, how=0):
        if how == 0:
            return self.m.Arrow(self.ty(d["dom"]), self.ty(d["cod"]), [self.box(b) for b in d["boxes"]])
        out = self.id(d["dom"])
        for b in d["boxes"]:
            out = out >> self.box(b)
        return out

    def proj(self, a):
        """an arrow as a diagram on one wire (the layer view is the trivial one: nothing left or right of a box)"""
        from harness.project import proj_atom, box_id

        def t(o):
            return [proj_atom(o, self.names)]
        boxes = [{"id": box_id(b, self.names), "kind": 0, "dom": t(b.dom), "cod": t(b.cod),
                  "dg": int(bool(getattr(b, "_dagger", False)))} for b in a.boxes]
        return {"dom": t(a.dom), "cod": t(a.cod), "boxes": boxes, "offs": [0] * len(boxes),
                "ldom": t(a.dom), "lcod": t(a.cod),
                "layers": [{"left": [], "bdom": b["dom"], "bcod": b["cod"], "right": []} for b in boxes]}
