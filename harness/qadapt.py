"""Abstract circuits of spec/Gates.tla (and CQ.tla) <-> real discopy.quantum circuits."""


def gate(g):
    from discopy.quantum import gates as G
    from discopy.quantum import (H, S, T, X, Y, Z, CX, CZ, SWAP, Rx, Ry, Rz, CU1, CRz, CRx, Ket, Bra, scalar)
    named = {"H": H, "S": S, "T": T, "X": X, "Y": Y, "Z": Z, "CX": CX, "CZ": CZ, "SWAP": SWAP}
    rot = {"Rx": Rx, "Ry": Ry, "Rz": Rz, "CU1": CU1, "CRz": CRz, "CRx": CRx}
    k = g["k"]
    if k in named:
        out = named[k]
    elif k in rot:
        out = rot[k](g["ph"] / 8)
    elif k == "Ctrl":
        sub = named[g["sub"]] if g["sub"] in named else rot[g["sub"]](g["ph"] / 8)
        if g.get("subdg"):
            sub = sub.dagger()
        out = G.Controlled(sub)
    elif k == "Ket":
        out = Ket(*g["bits"])
    elif k == "Bra":
        out = Bra(*g["bits"])
    elif k == "scalar":
        out = scalar(complex(g["re"], g["im"]) / (2 ** 0.5) ** g["s"])
    else:
        raise ValueError(k)
    return out.dagger() if g["dg"] else out


def circuit(c):
    from discopy.quantum import Id, qubit
    out = Id(qubit ** c["dom"])
    for layer in c["layers"]:
        box, off = gate(layer["g"]), layer["off"]
        out = out >> Id(qubit ** off) @ box @ Id(qubit ** (len(out.cod) - off - len(box.dom)))
    return out


def describe(c):
    def g(x):
        s = x["k"]
        if x["k"] == "Ctrl":
            s = "C(%s%s)" % (x["sub"], "+" if x.get("subdg") else "")
        if x["k"] in ("Rx", "Ry", "Rz", "CU1", "CRz", "CRx") or (x["k"] == "Ctrl" and x["sub"] in ("Rz",)):
            s += "(%d/8)" % x["ph"]
        if x["k"] in ("Ket", "Bra"):
            s += str(tuple(x["bits"]))
        if x["k"] == "scalar":
            s += "(%d+%di)/s2^%d" % (x["re"], x["im"], x["s"])
        return s + ("+" if x["dg"] else "")
    return "q%d: %s" % (c["dom"], " ".join("%s@%d" % (g(l["g"]), l["off"]) for l in c["layers"]))
