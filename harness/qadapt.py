"""Abstract circuits of spec/Gates.tla (and CQ.tla) <-> real discopy.quantum circuits."""


def gate(g):
    from discopy.quantum import gates as G
    from discopy.quantum import (H, S, T, X, Y, Z, CX, CZ, SWAP, Rx, Ry, Rz, CU1, CRz, CRx, Ket, Bra, scalar)
    named = {"H": H, "S": S, "T": T, "X": X, "Y": Y, "Z": Z, "CX": CX, "CZ": CZ, "SWAP": SWAP}
    rot = {"Rx": Rx, "Ry": Ry, "Rz": Rz, "CU1": CU1, "CRz": CRz, "CRx": CRx}
    k = g["k"]
    if k in named:
        out = named[k]
    elif k in rot:
        out = rot[k](g["ph"] / 8)
    elif k == "Ctrl":
        sub = named[g["sub"]] if g["sub"] in named else rot[g["sub"]](g["ph"] / 8)
        if g.get("subdg"):
            sub = sub.dagger()
        out = G.Controlled(sub)
    elif k == "Ket":
        out = Ket(*g["bits"])
    elif k == "Bra":
        out = Bra(*g["bits"])
    elif k == "scalar" and g.get("sub") == "sqrt":
        amp = complex(g["re"], g["im"]) / (2 ** 0.5) ** g["s"]       # principal root of its own square (Re > 0 or = i r)
        rad = amp * amp
        out = G.Sqrt(rad.real if abs(rad.imag) < 1e-12 else rad)
    elif k == "scalar":
        out = scalar(complex(g["re"], g["im"]) / (2 ** 0.5) ** g["s"])
    else:
        raise ValueError(k)
    return out.dagger() if g["dg"] else out


def circuit(c):
    from discopy.quantum import Id, qubit
    out = Id(qubit ** c["dom"])
    for layer in c["layers"]:
        box, off = gate(layer["g"]), layer["off"]
        out = out >> Id(qubit ** off) @ box @ Id(qubit ** (len(out.cod) - off - len(box.dom)))
    return out


def describe(c):
    def g(x):
        s = x["k"]
        if x["k"] == "Ctrl":
            s = "C(%s%s)" % (x["sub"], "+" if x.get("subdg") else "")
        if x["k"] in ("Rx", "Ry", "Rz", "CU1", "CRz", "CRx") or (x["k"] == "Ctrl" and x["sub"] in ("Rz",)):
            s += "(%d/8)" % x["ph"]
        if x["k"] in ("Ket", "Bra"):
            s += str(tuple(x["bits"]))
        if x["k"] == "scalar":
            s += "(%d+%di)/s2^%d" % (x["re"], x["im"], x["s"])
        return s + ("+" if x["dg"] else "")
    return "q%d: %s" % (c["dom"], " ".join("%s@%d" % (g(l["g"]), l["off"]) for l in c["layers"]))


# ---------------------------------------------------------------- ZX diagrams
def zx_box(b):
    from discopy.quantum import zx
    k = b["k"]
    if k == "Z":
        return zx.Z(b["n"], b["m"], b["ph"] / 16)
    if k == "X":
        return zx.X(b["n"], b["m"], b["ph"] / 16)
    if k == "H":
        return zx.H
    if k == "SWAP":
        return zx.SWAP
    if k == "scalar":
        return zx.scalar(complex(b["re"], b["im"]) / (2 ** 0.5) ** b["s"])
    raise ValueError(k)


def zx_diagram(d):
    from discopy.quantum import zx
    out = zx.Id(d["dom"])
    for layer in d["layers"]:
        box, off = zx_box(layer["b"]), layer["off"]
        out = out >> zx.Id(off) @ box @ zx.Id(len(out.cod) - off - len(box.dom))
    return out


class NotOnGrid(Exception):
    pass


def proj_zx_box(b):
    import math
    from fractions import Fraction
    from discopy.quantum import zx
    base = {"n": len(b.dom), "m": len(b.cod), "ph": 0, "re": 0, "im": 0, "s": 0}
    if isinstance(b, (zx.Z, zx.X)) and not isinstance(b, zx.Y):
        v = Fraction(float(b.phase)).limit_denominator(1 << 20) * 16
        if v.denominator != 1:
            raise NotOnGrid("spider phase %r" % (b.phase,))
        return dict(base, k="Z" if isinstance(b, zx.Z) else "X", ph=int(v) % 16)
    if isinstance(b, zx.Had):
        return dict(base, k="H")
    if isinstance(b, zx.Swap):
        return dict(base, k="SWAP")
    if isinstance(b, zx.Scalar):
        z = complex(b.data)
        for s in range(0, 12):
            re, im = z.real * math.sqrt(2) ** s, z.imag * math.sqrt(2) ** s
            if abs(re - round(re)) < 1e-9 and abs(im - round(im)) < 1e-9:
                return dict(base, k="scalar", re=int(round(re)), im=int(round(im)), s=s)
        raise NotOnGrid("scalar %r" % (z,))
    raise NotOnGrid("box %r" % (b,))


def proj_zx(d):
    return {"dom": len(d.dom), "layers": [{"b": proj_zx_box(b), "off": int(o)} for b, o in zip(d.boxes, d.offsets)]}


def describe_zx(d):
    def b(x):
        if x["k"] in ("Z", "X"):
            return "%s(%d,%d,%d/16)" % (x["k"], x["n"], x["m"], x["ph"])
        if x["k"] == "scalar":
            return "scalar((%d+%di)/s2^%d)" % (x["re"], x["im"], x["s"])
        return x["k"]
    return "zx%d: %s" % (d["dom"], " ".join("%s@%d" % (b(l["b"]), l["off"]) for l in d["layers"]))


# ---------------------------------------------------------------- mixed circuits (spec/CQ.tla)
def mixed_box(g):
    from discopy.quantum import circuit as C
    from discopy.quantum import gates as G
    from discopy.quantum import qubit, bit, Measure, Encode, Discard, MixedState, Bits, scalar
    k = g["k"]

    def ty(t):
        out = C.Ty()
        for w in t:
            out = out @ (qubit if w == "q" else bit)
        return out
    if k == "Measure":
        return Measure(g["n"], destructive=bool(g["f1"]), override_bits=bool(g["f2"]))
    if k == "Encode":
        return Encode(g["n"], constructive=bool(g["f1"]), reset_bits=bool(g["f2"]))
    if k == "Discard":
        return Discard(ty(g["tl"]))
    if k == "MixedState":
        return MixedState(ty(g["tl"]))
    if k == "Bits":
        return Bits(*g["bits"])
    if k == "NOT":
        return G.ClassicalGate("NOT", 1, 1, [0, 1, 1, 0])
    if k == "Noisy":
        return G.ClassicalGate("Noisy", 1, 1, [.25, .75, .5, .5])
    if k == "Copy":
        return G.Copy()
    if k == "Match":
        return G.Match()
    if k == "MSwap":
        return C.Swap(ty(g["tl"]), ty(g["tr"]))
    if k == "mscalar":
        return scalar(complex(g["re"], g["im"]) / (2 ** 0.5) ** g["s"], is_mixed=True)
    return gate(g)


def mixed_circuit(mc):
    from discopy.quantum import circuit as C
    from discopy.quantum import qubit, bit
    ty = C.Ty()
    for w in mc["ty"]:
        ty = ty @ (qubit if w == "q" else bit)
    out = C.Id(ty)
    for layer in mc["layers"]:
        box, off = mixed_box(layer["g"]), layer["off"]
        out = out >> C.Id(out.cod[:off]) @ box @ C.Id(out.cod[off + len(box.dom):])
    return out


def describe_mixed(mc):
    def g(x):
        k = x["k"]
        if k in ("Measure", "Encode"):
            return "%s(%d,%d,%d)" % (k, x["n"], x["f1"], x["f2"])
        if k in ("Discard", "MixedState"):
            return "%s(%s)" % (k, "".join(x["tl"]))
        if k == "MSwap":
            return "Swap(%s,%s)" % ("".join(x["tl"]), "".join(x["tr"]))
        if k in ("Bits", "Ket", "Bra"):
            return "%s%s" % (k, tuple(x["bits"]))
        if k in ("scalar", "mscalar"):
            return "%s((%d+%di)/s2^%d)" % ("sqrt-scalar" if x.get("sub") == "sqrt" else k, x["re"], x["im"], x["s"])
        if k == "sqrt":
            return "sqrt(form)"
        return k + ("(%d/8)" % x["ph"] if k in ("Rx", "Ry", "Rz", "CU1", "CRz", "CRx") else "") + ("+" if x["dg"] else "")
    return "%s: %s" % ("".join(mc["ty"]) or "-", " ".join("%s@%d" % (g(l["g"]), l["off"]) for l in mc["layers"]))
