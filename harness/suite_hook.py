"""Run the repository's own tests and doctests with hook H2 on and write the projection of
every distinct diagram constructed to an ndjson file.  usage: suite_hook.py OUT [doctests]"""
import json
import os
import shutil
import sys
import tempfile

REPO = os.environ.get("VERIF_REPO", "/repo")     # self-test override, see ./check


def main():
    out = sys.argv[1]
    doctests = len(sys.argv) > 2 and sys.argv[2] == "doctests"
    os.environ.setdefault("MPLBACKEND", "Agg")
    scratch = tempfile.mkdtemp(prefix="discopy-suite-")
    try:
        shutil.copytree(REPO + "/test", os.path.join(scratch, "test"))
        for root, dirs, _ in os.walk(REPO + "/docs/_static/imgs"):
            os.makedirs(os.path.join(scratch, os.path.relpath(root, REPO)), exist_ok=True)
        os.makedirs(os.path.join(scratch, "docs/_static/imgs"), exist_ok=True)
        os.chdir(scratch)
        from harness.project import DiagramSink
        sink = DiagramSink().install()
        import pytest
        args = ["-q", "-p", "no:cacheprovider", "--no-header", "-W", "ignore", "test"]
        if doctests:
            args += ["--doctest-modules", REPO + "/discopy", "--continue-on-collection-errors"]
        with open(os.devnull, "w") as devnull:
            old = sys.stdout
            sys.stdout = devnull
            try:
                rc = pytest.main(args)
            finally:
                sys.stdout = old
        sink.uninstall()
        with open(out, "w") as f:
            for rec in sink.seen.values():
                f.write(json.dumps(rec, sort_keys=True) + "\n")
        print(json.dumps({"pytest_rc": int(rc), "constructed": sink.total,
                          "distinct": len(sink.seen), "errors": sink.errors[:5]}))
    finally:
        os.chdir("/")
        shutil.rmtree(scratch, ignore_errors=True)


if __name__ == "__main__":
    main()
