"""Writes /verif/MANIFEST.json from the table below (run: /venv/bin/python -m harness.manifest)."""
import json
import os

ROOT = os.path.dirname(os.path.dirname(os.path.abspath(__file__)))

HOOK_COMMITS = ["7a8ba4f"]
FIX_COMMITS = ["4500ab7", "5737839", "2d5e69c", "bf43ee9", "0b45cfb", "823a22a", "a0bae4e", "a7c4305", "679711e", "6687037", "9f0056a", "8ebb5ae", "77c6db8", "a9e432f", "5be6b47",
               "9204408", "62101af", "3d46141", "2ff2c50", "e379910", "1f6170d", "08f4d2e", "e15ae94", "3b1bac7", "6cf510e",
               "f957fe3", "9839c25", "f3ebd21", "97472b2", "703b1b6", "8dc3815", "195ebf5", "3bfa7c9", "805185c", "13be2b2", "b240896"]

CHECKS = {
    "C01": dict(
        text="Bounded model checking plus trace validation: TLC explores every program of the diagram API within "
             "small bounds (DiagramMachine) and proves the specification's own results well-typed; every dumped "
             "state and every simulated behaviour is replayed on the real library and TLC judges the projection of "
             "each returned diagram, and of every diagram constructed anywhere inside the library (hook in "
             "Diagram.__init__, also during the repository's own tests), with Diagrams!FirstFailing. The machine is "
             "instantiated at three signatures (monoidal, rigid, and the free category cat.Arrow as diagrams on one "
             "wire); diagrams of the circuit, zx, tensor, cartesian and biclosed classes (drawn from the other models' "
             "states) are put through the generic API under the hook; the constructor is also called with the same "
             "boxes but other types (op retype).",
        note="Trusted: TLC, the 60-line projection harness/project.py, the hook (3 lines). Bounds in evidence.",
        ref="5/C01", technique="TLA+ spec + TLC, spec->code replay, code->spec trace validation (hooked constructions)"),
    "C02": dict(
        text="The strict monoidal operations are defined in Diagrams.tla from the statement; TLC checks the law set "
             "on those definitions for every reachable diagram, and every API result of the real library "
             "(>>, @, dagger, slices, indexing, constructor) on replayed states and histories must equal the "
             "specified value (judge J02), in the monoidal, rigid and cat classes; in the circuit, zx, tensor, cartesian "
             "and biclosed classes law instances are evaluated on real diagrams and judged on their projections by "
             "Trace_ClassLaws.",
        note="Trusted: TLC, projection. Formal sums are covered by the Sum leg (see evidence.coverage.sums).",
        ref="5/C02", technique="TLA+ spec + TLC, replay of TLC states/behaviours, trace validation"),
    "C05": dict(
        text="Interchange is specified as the set of diagrams reachable by admissible adjacent exchanges "
             "(Diagrams!Move); TLC proves well-typedness/box preservation of every admissible exchange on all "
             "diagrams in bounds; every interchange(i, j, left) call on replayed states (all index pairs incl. "
             "out-of-range, both preferences) is judged by TLC (J05), refusals included (a refusal needs an obstruction "
             "on the way the requested preference takes); three signatures: seven generators, the two-generator "
             "tie machine (every diagram of <= 3 boxes), rigid.",
        note="Trusted: TLC, projection. 'wired to' read as planar obstruction (DESIGN 5/C05).",
        ref="5/C05", technique="TLA+ spec + TLC, replay, trace validation"),
    "C06": dict(
        text="TLC proves on the model that the fuelled right/left normal form exists, is a fixed point and is "
             "constant on every interchanger class of connected diagrams in bounds; on the code, normal_form of "
             "every replayed state, of its normal form and of each interchange neighbour must be reachable by "
             "interchanges and mutually equal, every yielded normalize() step must be a single admissible "
             "interchange (judge J06).",
        note="Trusted: TLC, projection. Connectedness as in Diagrams!Connected.",
        ref="5/C06", technique="TLA+ spec + TLC, replay, trace validation of rewrite histories"),
}

CHECKS["C07"] = dict(
    text="Snake.tla specifies which cap/cup pairs satisfy a snake equation and transcribes follow_wire/find_snake/"
         "unsnake; TLC checks on every rigid diagram in bounds (cups/caps of all orientations, windings -2..2) that "
         "the algorithm never fails, only yanks snakes and ends well-typed and snake-free. Every dumped diagram "
         "with a cap and a cup is replayed through normalize()/normal_form(); TLC judges each yielded step "
         "(well-typed, same type, interchange or legal yank), the exceptions and the final form (J07).",
    note="Trusted: TLC, projection. Denotation clause delegated to C09 (normal_form invariance).",
    ref="5/C07", technique="TLA+ spec + TLC, replay of dumped states, trace validation of rewrite histories")
CHECKS["C10"] = dict(
    text="Perm.tla: arrangement of labelled wires with AdjSwap steps; TLC proves the transcribed swap recursion "
         "and permutation loop meet SwapProp/PermProp for all lengths/permutations up to MaxN. The boxes returned "
         "by the real swap/permutation/permute in the five classes are replayed as AdjSwap events and judged "
         "(J10); non-permutations and length mismatches must be refused.",
    note="Trusted: TLC, projection. Exhaustive for lengths <= MaxN (evidence). Semantic leg: the wire map read off the "
         "evaluated arrays (Tensor.swap, tensor and circuit diagrams); behaviour-style validation Trace_PermB.",
    ref="5/C10", technique="TLA+ spec + TLC (exhaustive), returned boxes validated as an AdjSwap event log")

CHECKS["C08"] = dict(
    text="Mat.tla defines the category of matrices over a ring (product, Kronecker product, conjugate transpose, "
         "identities, block-permutation swaps, nested cups/caps); TensorCat checks its categorical laws (units, "
         "involution, interchange, naturality of swaps, both snake equations) with TLC on all shapes in bounds. "
         "The model's register contents (generic non-symmetric Gaussian-integer arrays) are replayed through "
         "discopy.Tensor and each result is compared exactly, inside TLC, with the specified matrix (J08).",
    note="Trusted: TLC, numpy's exact integer arithmetic below 2^53. Dims over {1,2,3}.",
    ref="5/C08", technique="TLA+ spec of the matrix category + TLC, replay of model states, exact trace validation")
CHECKS["C09"] = dict(
    text="Eval.tla defines the meaning of a rigid diagram as the layer-by-layer composite of whiskered box "
         "tensors; TLC proves on all rigid diagrams in bounds that interchanges and snake yanks preserve it. "
         "Dumped diagrams are evaluated by the real tensor.Functor for every prefix (the state of its "
         "single-pass contraction loop), for every interchange neighbour, the normal form and the "
         "tensor.Diagram.eval route, under three interpretations; TLC compares each tensor exactly (J09).",
    note="Trusted: TLC, generic-array generator (same formula in Eval!Gen and adapter). Also: multi-wire object images "
         "(Dim(2, 2), Dim(2, 3)), formal sums and their composites, bubbles (three functions, integer-valued boxes), "
         "spiders and fusion, rigid transposes (Mat!TransposeT).",
    ref="5/C09", technique="TLA+ evaluation machine + TLC, prefix-wise trace validation against the real functor")
CHECKS["C19"] = dict(
    text="Cartesian.tla: tuple-rewriting machine (ApplyBox) over a menu of functions of arities 0..3; TLC checks "
         "arity preservation and the naturality squares in the model; every dumped diagram is called on input "
         "tuples in the real library and TLC compares the returned tuple with box-by-box evaluation; Swap/Copy/"
         "Discard(n) by their meaning; naturality squares on code values (J19).",
    note="Trusted: TLC; function menu defined identically in TLA+ and in the adapter. Values: integers, None and a list "
         "as opaque values; results compared raw (python ==) in the squares; boxes with shared names.",
    ref="5/C19", technique="TLA+ spec + TLC, replay of dumped diagrams, trace validation")
CHECKS["C20"] = dict(
    text="Layout.tla transcribes make_space/add_box with exactly scaled integer coordinates and states the "
         "planarity properties (one node per input/output/box/port, edges = wiring computed independently, strict "
         "order of open wires at every height, vertical wires, downward edges, boxes strictly between neighbours); "
         "TLC proves them for the algorithm on all shapes in bounds; the real diagram2nx output for dumped shapes "
         "is judged by the same predicates (J20), both back-ends must render, diagramize must reproduce the wiring.",
    note="Trusted: TLC, exact dyadic scaling (checked). Pixels are not judged.",
    ref="5/C20", technique="TLA+ transcription + property predicates, TLC, trace validation of recorded layouts")

CHECKS["C04"] = dict(
    text="Functor.tla defines the unique strict monoidal/rigid functor with given images on generators (ApplyTy with "
         "winding-aware adjoints, nested cups/caps, swap diagrams, whiskered layers); configurations (object and box "
         "images) are part of the initial state. TLC proves typing and the functoriality equations on the model and "
         "finds the one law that fails (dagger of swaps with multi-wire images). The real rigid.Functor (dict and "
         "callable) is run on dumped (configuration, diagram) pairs; TLC judges image type, well-typedness, equality "
         "with the specified image, and 12 law instances evaluated with python == on code values (J04).",
    note="Trusted: TLC, projection. One known finding (see known_findings.json).",
    ref="5/C04", technique="TLA+ spec with configurations in Init + TLC, replay, trace validation")

CHECKS["C03"] = dict(
    text="Values.tla: the abstract value of an object is its projection; JPair requires python's == to agree with "
         "equality of projections, to be symmetric (both directions recorded), transitive on recorded triples, "
         "hash-consistent, a box to equal its one-box diagram, equal keys to be found in a functor's mapping, and "
         "repr to evaluate back to an equal value. Pairs: all descriptor pairs generated by TLC (objects with "
         "windings, types, boxes with dagger flag/data) in cat, monoidal and rigid; model states of the diagram "
         "machines built along different construction paths (constructor, composition, simulated API histories, "
         "double dagger) and sums of them.",
    note="Trusted: TLC, the projection. Data payloads from rotating finite menus (incl. falsy ones). The algebra of types "
         "(Types.tla: tensor, adjoints, slices, powers) is a further leg. The two abstract names also stand, in rotation, "
         "for names that print like structure ('x.l', 'x @ x', 'Ty()', 1 and '1'); bubbles of the box pairs (with and "
         "without explicit types) are compared as well.",
    ref="5/C03", technique="TLA+ spec + TLC-generated pairs and paths, trace validation of recorded comparisons")

CHECKS["C18"] = dict(
    text="Grammar.tla: pregroup parsing as a Contract(i) machine (TLC checks that the eager strategy only ever "
         "records legal reductions, over all sentences of bounded length); derivations of a CFG; the biclosed-to-"
         "rigid object map ToRigid on nested slash types. Real eager_parse/brute_force results are replayed as "
         "Contract events, generated sentences are judged as derivations, and for every rule instance generated "
         "by MC_Biclosed (composite left/right sides, curried boxes) and CCG trees rendered from them the image "
         "under biclosed2rigid must be well-typed with the images of domain and codomain (J18).",
    note="Trusted: TLC, projections of rigid diagrams and of nested biclosed types. CFG menu lives in the harness.",
    ref="5/C18", technique="TLA+ spec + TLC-generated sentences and rule instances, trace validation")

CHECKS["C11"] = dict(
    text="Ring16.tla gives exact arithmetic in Z[e^{i pi/8}][1/sqrt2]; Gates.tla states the gate table in the "
         "[input, output] convention and the meaning of a pure circuit as the ordered product of whiskered gates; "
         "TLC proves exact unitarity/isometry and the dagger rule for every circuit in bounds and computes, for "
         "every recorded circuit (model states, simulated deeper circuits, all rewirings on <= 4 qubits), the exact "
         "tensor it and its dagger must evaluate to; the library's float arrays are compared with the float image "
         "under a fixed tolerance. The spec's table is cross-checked against pytket on every run.",
    note="Trusted: TLC, 10-line float comparison, pytket for validating the table. Phases on the 1/8-turn grid only.",
    ref="5/C11", technique="TLA+ exact-arithmetic spec + TLC as reference evaluator, replay of model circuits")

CHECKS["C16"] = dict(
    text="ZX.tla gives the standard interpretation of ZX generators over the exact ring and the translation table; "
         "TLC proves, exactly, that every supported gate is proportional to its table entry at all 16 grid phases "
         "and that the dagger rule of ZX diagrams denotes the conjugate transpose on all diagrams of the builder. "
         "The ZX diagrams the real circuit2zx returns for model circuits (and all grid phases of the parametrised "
         "gates) are judged by exact proportionality to Gates!Sem and wire counts; real .dagger() of builder "
         "diagrams by exact equality with the conjugate transpose (J16).",
    note="Trusted: TLC, projection of ZX boxes (phases must lie on the 1/16 grid, else machinery failure).",
    ref="5/C16", technique="TLA+ exact-arithmetic spec + TLC, translation validation of recorded ZX images")

CHECKS["C17"] = dict(
    text="Pyzx.tla gives the meaning of a pyzx graph (sum over one bit per spider, Hadamard edges, X spiders as "
         "H-conjugated Z spiders) and transcribes to_pyzx's scan machine; TLC proves that the machine preserves the "
         "meaning on every simply-wired diagram of the builder. Graphs exported by the real to_pyzx are projected "
         "and must denote ZXSem of the diagram exactly, inputs/outputs in order, scalar included; graphs (exported, "
         "relabelled, ill-formed boundaries) are imported with the real from_pyzx and the result must be well-typed, "
         "with the right wire counts and denote the graph exactly, or be refused with ValueError (J17). GraphSem is "
         "cross-checked against pyzx.tensorfy on every exported graph.",
    note="Trusted: TLC, graph/diagram projections, the in-process pyzx adapter.",
    ref="5/C17", technique="TLA+ exact-arithmetic spec + TLC, translation validation both ways")

CHECKS["C12"] = dict(
    text="CQ.tla defines classical-quantum maps mathematically over the exact ring (doubling, delta tensors for "
         "measure/encode with all variants, traces for discards, sector-wise tensor product, mixed swaps, classical "
         "gates, scalars) and the distribution over output bits after init-and-discard. TLC proves on every mixed "
         "circuit in bounds: doubling of pure circuits, trace preservation, normalised counts, adjointness. For "
         "every recorded circuit TLC computes the exact CQ array, pure tensor, Born distribution and counts; "
         "eval(mixed=True), eval(), measure() and get_counts() of the real library are compared with their float "
         "images; the library must evaluate spec-mixed circuits as CQ maps.",
    note="Trusted: TLC, float comparison, adapter from abstract boxes to discopy boxes.",
    ref="5/C12", technique="TLA+ exact-arithmetic spec + TLC as reference evaluator, replay of model circuits")

CHECKS["C14"] = dict(
    text="Param.tla models parameters as affine forms over two symbols and substitution steps as sequences of pairs; "
         "TLC checks on all histories in bounds that substitution touches nothing but the forms and reports free "
         "symbols correctly. TLC behaviours (build a parametrised pure/mixed circuit, then substitute) are replayed "
         "with the real subs/lambdify; TLC judges the projected result (kinds, flags, mixedness, substituted forms, "
         "free symbols before and after) and computes the exact arrays of closed results, against which "
         "substitute-then-evaluate, evaluate-then-substitute (Tensor.subs and a harness-side sympy substitution) "
         "and lambdify are compared; lambdify(...)(...) must equal the substituted diagram. Further legs: ZX diagrams "
         "with symbolic spider phases and scalars (Trace_ParamZX: substituted boxes, free symbols, and the lambdified "
         "diagram called on the numbers of a closing step), tensor diagrams of symbolic 2x2 boxes with bubbles and "
         "daggers, also built as classical gates on one bit (Trace_ParamT: three value routes plus lambdify, dagger flags).",
    note="Trusted: TLC, float comparison, sympy for extracting affine coefficients. ZX diagrams have no evaluation "
         "in this version of the library: their leg is structural.",
    ref="5/C14", technique="TLA+ spec + TLC behaviours (histories of substitutions), trace validation, exact reference values")

CHECKS["C15"] = dict(
    text="Grad.tla defines the partial derivative of a parametrised circuit's evaluation exactly as A + pi B (ring "
         "elements): multilinearity in the boxes, d/dphase of a rotation, product rule for the doubled map, d|s|^2 "
         "for amplitude scalars; TLC proves the parameter-shift identity at all grid phases. For TLC-generated "
         "parametrised pure and mixed circuits, symbols and grid points, grad(x, mixed=False) and the default grad(x) "
         "of the real library are evaluated symbolically, the point is substituted by the harness with sympy, and "
         "the result is compared with the float image of TLC's exact derivative; independent diagrams must give the "
         "empty sum; NotImplementedError is counted as a refusal. Tensor diagrams: expression trees over symbolic 2x2 "
         "boxes (plain and daggered), composition, tensor, polynomial bubbles and formal sums at the top "
         "(Trace_GradT computes value and derivative exactly: product and chain rules); the gradient is evaluated "
         "and the point substituted afterwards, and the point is substituted into the gradient diagram and the "
         "result evaluated (both must give the derivative); the jacobian must stack the gradients in order.",
    note="Trusted: TLC, float comparison, sympy for substituting the point. One known finding (amplitude scalars "
         "in mixed gradients).",
    ref="5/C15", technique="TLA+ exact derivative semantics + TLC as reference evaluator, replay of model circuits")

CHECKS["C13"] = dict(
    text="Tket.tla simulates a recorded tket circuit exactly (branch vectors over the exact ring, mid-circuit "
         "measurements), then post-selects, scales and post-processes; the result must equal CQ!Counts of the "
         "circuit (to_tk), resp. CQ!Counts / the prepared state vector of the imported circuit must equal it "
         "(from_tk, for exported circuits and harness-assembled tket circuits with non-adjacent, reversed qubits). "
         "get_counts(backend) and eval(backend) run through a mock backend returning exact frequencies (numpy branch "
         "simulator, itself checked against TLC) and are compared with TLC's exact distribution, also for the circuit "
         "as the second member of a batch whose first member carries another scalar. Deterministic families cover "
         "what the bounded model cannot reach: dead wires, post-selection chains, bits after Copy / Match, "
         "overriding measurements, bit swaps after post-selection, kets after holes, adjoints of named gates read "
         "out in the X basis (Sdg / Tdg), rotations outside the first turn (exported and imported), distant qubits.",
    note="Trusted: TLC, projections of tket circuits and of imported circuits, float comparison. Five known findings.",
    ref="5/C13", technique="TLA+ exact simulator + TLC judging recorded translations (translation validation)")

NOT_YET = {}


def main():
    props = [json.loads(l) for l in open(os.path.join(ROOT, "properties.jsonl"))]
    checks, na = [], []
    for p in props:
        pid = p["id"]
        if pid in CHECKS and os.path.exists(os.path.join(ROOT, "harness", "checks", pid.lower() + ".py")):
            c = CHECKS[pid]
            checks.append({
                "property_id": pid,
                "quick_cmd": "./check %s --tier quick" % pid,
                "thorough_cmd": "./check %s --tier thorough" % pid,
                "evidence_file": "/verif/evidence/%s.json" % pid,
                "replay_cmd_template": "./check %s --replay {path}" % pid,
                "engine": "tlc",
                "level_claimed": {"category": c.get("category", "model_checking"), "text": c["text"],
                                  "design_ref": c["ref"]},
                "level_note": c["note"],
                "technique": c["technique"],
            })
        else:
            na.append({"property_id": pid,
                       "reason": NOT_YET.get(pid, "check not built yet in this session (the specification "
                                             "applies; see DESIGN.md 5/%s)" % pid)})
    man = {
        "version": 1,
        "setup_cmd": "./setup.sh",
        "hooks": {
            "guard": "DISCOPY_VERIF",
            "enable": "environment variable DISCOPY_VERIF=1 set by ./check before discopy is imported from /repo "
                      "(editable install; nothing to build)",
            "baseline_off_cmd": "cd /repo && env -u DISCOPY_VERIF /venv/bin/python -m pytest -ra -q "
                                "-p no:cacheprovider --timeout=900 --continue-on-collection-errors",
            "source_commits": HOOK_COMMITS,
            "add_only": True,
        },
        "engines": [{"name": "tlc", "path": "/opt/veriftools/tla/tla2tools.jar",
                     "serves_properties": [c["property_id"] for c in checks],
                     "kind_free_text": "TLC 1.8 explicit-state model checker: exhaustive models, simulation, "
                                       "and batch trace validation of observations recorded from the real code"}],
        "checks": checks,
        "not_applicable": na,
        "notes": "See DESIGN.md. Every check: TLC model -> replay on /repo's working tree -> TLC trace validation; "
                 "exit 2 = machinery failure.",
    }
    with open(os.path.join(ROOT, "MANIFEST.json"), "w") as f:
        json.dump(man, f, indent=1)
    print("checks:", [c["property_id"] for c in checks], "not claimed:", len(na))


if __name__ == "__main__":
    main()
