"""C10 - swaps and permutations realise exactly the requested wire permutation."""
import itertools
import json
import os
import time
from collections import Counter

from harness import core, tlaval
from harness.project import Names, proj_diagram, proj_ty, EMPTY_OBS, DiagramSink

LEVEL = "model_checking"
ASSUME = ["the returned boxes are replayed as AdjSwap events of spec/Perm.tla on labelled wires; each box must be "
          "a swap box whose domain/codomain are the atoms at its offset",
          "requests are the initial states of the exhaustive model (all pairs of lengths, all permutations up to "
          "MaxN), typed with distinct and with repeated atoms, in the five classes that offer swaps; plus all "
          "non-permutation vectors up to length 3 and length mismatches (must be refused)"]
TIERS = {"quick": {"MaxN": 4, "model_MaxN": 5}, "thorough": {"MaxN": 6, "model_MaxN": 6}}


def class_table():
    from discopy import monoidal, rigid, tensor
    from discopy.quantum import circuit, zx
    from discopy.quantum.circuit import qubit, bit
    names = "abcdefghijklmnopqrstuvwx"

    def mono(n, var):
        return monoidal.Ty(*[names[k] if var == 0 else names[k % 2] for k in range(n)])

    def rig(n, var):
        return rigid.Ty(*[rigid.Ob(names[k] if var == 0 else names[k % 2], (k % 3) - 1) for k in range(n)])

    def dim(n, var):
        return tensor.Dim(*[(k + 2) if var == 0 else (2 + k % 2) for k in range(n)])

    def circ(n, var):
        out = circuit.Ty()
        for k in range(n):
            out = out @ (qubit if (k % 2 == 0) == (var == 0) else bit)
        return out

    def pro(n, var):
        return rigid.PRO(n)
    return {
        "monoidal": (monoidal.Diagram, mono), "rigid": (rigid.Diagram, rig),
        "tensor": (tensor.Diagram, dim), "circuit": (circuit.Circuit, circ), "zx": (zx.Diagram, pro),
    }


def wire_map(T, n):
    """Reads the wire permutation off an evaluated tensor with n input and n output wires (all dimensions >= 2):
    q[i] = output position of input wire i, and whether the array is exactly that permutation tensor."""
    import numpy as np
    A = np.asarray(T.array)
    dims = tuple(T.dom)
    if n == 0:
        return [], int(len(T.dom) == 0 and len(T.cod) == 0 and A.size == 1 and A.flat[0] == 1)
    if len(T.dom) != n or len(T.cod) != n or A.shape != tuple(T.dom) + tuple(T.cod):
        return [], 0
    q = []
    for i in range(n):
        row = A[tuple(1 if k == i else 0 for k in range(n))]
        nz = np.argwhere(row != 0)
        if len(nz) != 1 or row[tuple(nz[0])] != 1 or sorted(nz[0]) != [0] * (n - 1) + [1]:
            return [], 0
        q.append(int(list(nz[0]).index(1)))
    if sorted(q) != list(range(n)):
        return q, 0
    E = np.eye(int(np.prod(dims)) if n else 1).reshape(dims + dims)
    E = np.moveaxis(E, [n + i for i in range(n)], [n + q[i] for i in range(n)])
    return q, int(E.shape == A.shape and np.array_equal(E, A))


def _size(dim):
    n = 1
    for v in dim:
        n *= v
    return n


def sem_row(cls, kind, src, fn, n, nl=0, nr=0, perm=()):
    row = {"cls": cls, "kind": kind, "how": src, "lt": [0] * nl, "rt": [0] * nr, "perm": list(perm), "nl": nl, "nr": nr,
           "q": [], "isperm": 0, "exc": "", "dom": [], "res": {k: EMPTY_OBS[k] for k in ("dom", "cod", "boxes", "offs")}}
    try:
        row["q"], row["isperm"] = wire_map(fn(), n)
    except Exception as e:
        row["exc"] = type(e).__name__
    return row


def observe(fn, names):
    try:
        res = fn()
        return "", proj_diagram(res, names, layers=False)
    except Exception as e:
        return type(e).__name__, {k: EMPTY_OBS[k] for k in ("dom", "cod", "boxes", "offs")}


def run(tier, seed, t0):
    cfgt = TIERS[tier]
    with core.workdir("C10") as work:
        model = core.run_model("MC_Perm", work, constants={"MaxN": cfgt["model_MaxN"]},
                               invariants=["InvOffsetsInRange", "InvSwap", "InvPerm", "InvLog"],
                               coverage=True)
        vac = [a for a in ("AdjSwap", "Iterate") if model["coverage"].get(a, [0, 0])[1] == 0]
        if vac:
            raise core.Machinery("vacuous actions " + str(vac))
        gen = core.run_model("MC_Perm", work, constants={"MaxN": cfgt["MaxN"]}, dump=True, tag="_gen")
        reqs, seen = [], set()
        for st in tlaval.read_dump(gen["dump"]):
            if st["i"] == 0 and st["log"] == [] :
                key = json.dumps(st["req"], sort_keys=True)
                if key not in seen:
                    seen.add(key)
                    reqs.append(st["req"])
        os.remove(gen["dump"])
        sink = DiagramSink().install()
        names = sink.names
        table = class_table()
        rows = []
        bad_perms = [list(p) for n in range(1, 4) for p in itertools.product(range(-1, 4), repeat=n)
                     if set(p) != set(range(n))]
        for cls, (factory, mk) in table.items():
            for req in reqs:
                for var in (0, 1):
                    if req["kind"] == "swap":
                        lt, rt = mk(req["nl"], var), mk(req["nl"] + req["nr"], var)[req["nl"]:]
                        exc, res = observe(lambda: factory.swap(lt, rt), names)
                        rows.append({"cls": cls, "kind": "swap", "how": "swap", "lt": proj_ty(lt, names),
                                     "rt": proj_ty(rt, names), "perm": [], "dom": [], "exc": exc, "res": res})
                    else:
                        p = list(req["p"])
                        dom = mk(len(p), var)
                        for how in ("permutation", "permute") + (("default",) if var == 0 else ()):
                            if how == "permutation":
                                fn = lambda: factory.permutation(list(p), dom)
                            elif how == "permute":
                                fn = lambda: factory.id(dom).permute(*p)
                            else:
                                fn = lambda: factory.permutation(list(p))
                            exc, res = observe(fn, names)
                            d = res["dom"] if (how == "default" and not exc) else proj_ty(dom, names)
                            rows.append({"cls": cls, "kind": "perm", "how": how, "lt": [], "rt": [], "perm": p,
                                         "dom": d, "exc": exc, "res": res})
                        if cls in ("monoidal", "rigid") and p:
                            # permute() of a diagram whose domain differs from its codomain: what follows the box must be
                            # the permutation of the *codomain* (a box from one or two other wires into dom)
                            src = mk(len(p) + 2, var)[len(p):][:(2 if len(p) == 1 else 1)]
                            from discopy import monoidal as _m, rigid as _r
                            box = (_m.Box if cls == "monoidal" else _r.Box)("f", src, dom)
                            exc, res = observe(lambda: box.permute(*p)[1:], names)
                            rows.append({"cls": cls, "kind": "perm", "how": "permute-after-box", "lt": [], "rt": [], "perm": p,
                                         "dom": proj_ty(dom, names), "exc": exc, "res": res})
            for p in bad_perms:
                dom = mk(len(p), 0)
                exc, res = observe(lambda: factory.permutation(list(p), dom), names)
                rows.append({"cls": cls, "kind": "perm", "how": "permutation", "lt": [], "rt": [], "perm": p,
                             "dom": proj_ty(dom, names), "exc": exc, "res": res})
            for p, m in (([0, 0], 1), ([1, 0, 0, 1], 2), ([0, 1, 1], 2), ([2, 0, 1, 0], 3), ([0, 0, 0], 1), ([1, 0, 1, 0], 2)):
                # longer than the domain, repeated entries, distinct values = range(len(dom)): still no permutation
                dom = mk(m, 0)
                for how in ("permutation", "permute"):
                    fn = (lambda: factory.permutation(list(p), dom)) if how == "permutation" else (lambda: factory.id(dom).permute(*p))
                    exc, res = observe(fn, names)
                    rows.append({"cls": cls, "kind": "perm", "how": how, "lt": [], "rt": [], "perm": p,
                                 "dom": proj_ty(dom, names), "exc": exc, "res": res})
            for n, m in ((2, 3), (3, 2), (0, 1), (1, 0)):
                p, dom = list(range(n))[::-1], mk(m, 0)
                exc, res = observe(lambda: factory.permutation(list(p), dom), names)
                rows.append({"cls": cls, "kind": "perm", "how": "permutation", "lt": [], "rt": [], "perm": p,
                             "dom": proj_ty(dom, names), "exc": exc, "res": res})
        sink.uninstall()
        # semantic leg: what the swaps and permutations of the tensor and (pure) circuit classes evaluate to
        from discopy import tensor as _t
        from discopy.quantum import circuit as _c
        dimty = table["tensor"][1]
        for req in reqs:
            if req["kind"] == "swap":
                nl, nr = req["nl"], req["nr"]
                for var in (0, 1):
                    lt, rt = dimty(nl, var), dimty(nl + nr, var)[nl:]
                    if _size(lt @ rt) > 800:
                        continue
                    rows.append(sem_row("tensor", "semswap", "Tensor.swap", lambda: _t.Tensor.swap(lt, rt), nl + nr, nl, nr))
                    rows.append(sem_row("tensor", "semswap", "Diagram.swap.eval", lambda: _t.Diagram.swap(lt, rt).eval(), nl + nr, nl, nr))
                if nl + nr <= 4:
                    rows.append(sem_row("circuit", "semswap", "Circuit.swap.eval", lambda: _c.Circuit.swap(
                        _c.qubit ** nl, _c.qubit ** nr).eval(), nl + nr, nl, nr))
            else:
                p = list(req["p"])
                for var in (0, 1):
                    dom = dimty(len(p), var)
                    if _size(dom) > 800:
                        continue
                    # (tensor.Diagram.permutation itself returns a rigid.Diagram, which has no eval: permute is the
                    # entry point that stays in the class)
                    rows.append(sem_row("tensor", "semperm", "Diagram.id.permute.eval",
                                        lambda: _t.Diagram.id(dom).permute(*p).eval(), len(p), perm=p))
                if len(p) <= 4:
                    rows.append(sem_row("circuit", "semperm", "Circuit.permutation.eval", lambda: _c.Circuit.permutation(
                        list(p), _c.qubit ** len(p)).eval(), len(p), perm=p))
        tf = os.path.join(work, "trace.ndjson")
        core.write_ndjson(tf, rows)
        val = core.validate("Trace_Perm", "J10", tf, work, constants={"MaxN": 0})
        rejected, clauses = core.track([]), Counter()
        for t, v in zip(rows, val["verdicts"]):
            clauses[v[0]] += 1
            if v[0] != "ok":
                rejected.append({"clause": v[0], "sig": "cls=%s %s(%s) l=%d r=%d exc=%s" % (
                    t["cls"], t["how"], t["perm"], len(t["lt"]), len(t["rt"]), t["exc"] or "-"), "obs": t})
        # canary: exchange two offsets of an accepted 3-wire permutation
        can = None
        for t, v in zip(rows, val["verdicts"]):
            if v[0] == "ok" and t["kind"] == "perm" and len(t["res"]["offs"]) >= 2 and \
                    t["res"]["offs"][0] != t["res"]["offs"][1] and t["exc"] == "":
                bad = json.loads(json.dumps(t))
                bad["res"]["offs"][0], bad["res"]["offs"][1] = bad["res"]["offs"][1], bad["res"]["offs"][0]
                cf = os.path.join(work, "canary.ndjson")
                core.write_ndjson(cf, [bad])
                got = core.validate("Trace_Perm", "J10", cf, work, constants={"MaxN": 0})["verdicts"][0][0]
                if got == "ok":
                    continue
                can = {"corrupted": "first two offsets exchanged", "rejected_with": got}
                break
        if can is None:
            raise core.Machinery("canary accepted")
        drift = core.validate("Trace_Perm", "JDrift", tf, work, constants={"MaxN": 0})
        # behaviour-style validation (algorithm level): the offsets of a returned permutation diagram as AdjSwap events
        beh = {"checked": 0, "accepted": 0}
        picks = [t for t, v in zip(rows, val["verdicts"]) if v[0] == "ok" and t["kind"] == "perm" and t["how"] == "permutation"
                 and t["cls"] == "monoidal" and len(t["perm"]) == 4 and len(t["res"]["offs"]) >= 3][:3]
        for k, t in enumerate(picks):
            one = os.path.join(work, "beh-%d.ndjson" % k)
            core.write_ndjson(one, [{"perm": t["perm"], "offs": t["res"]["offs"]}])
            r = core.behaviour_validate("Trace_PermB", one, work, constants={"MaxN": 4}, invariants=["InvNoExtraEvents"])
            beh["checked"] += 1
            beh["accepted"] += int(r["accepted"])
            if k == 0:   # canary: the last logged offset moved by one must not be explainable
                bad = os.path.join(work, "beh-canary.ndjson")
                offs = list(t["res"]["offs"]); offs[-1] = offs[-1] + 1 if offs[-1] < 2 else offs[-1] - 1
                core.write_ndjson(bad, [{"perm": t["perm"], "offs": offs}])
                rb = core.behaviour_validate("Trace_PermB", bad, work, constants={"MaxN": 4}, invariants=["InvNoExtraEvents"])
                beh["canary_rejected"] = not rb["accepted"]
                if rb["accepted"]:
                    raise core.Machinery("Trace_PermB accepted a corrupted event log")
        cov = {"states": model["distinct"], "transitions": model["generated"],
               "traces_validated_against_impl": clauses["ok"],
               "samples": [{k: t[k] for k in ("cls", "kind", "how", "perm", "lt", "rt", "exc")} | {"offs": t["res"]["offs"]}
                           for t in (rows[3], rows[len(rows) // 2], rows[-1])],
               "exhaustive": True,
               "model": {"module": "MC_Perm", "MaxN": cfgt["model_MaxN"], "action_coverage": model["coverage"],
                         "invariants": ["InvOffsetsInRange", "InvSwap", "InvPerm", "InvLog"]},
               "replay": {"requests_from_model": len(reqs), "MaxN": cfgt["MaxN"], "observations": len(rows),
                          "by_class": dict(Counter(t["cls"] for t in rows)),
                          "refused": sum(1 for t in rows if t["exc"]),
                          "refusals_by_exception": dict(Counter(t["exc"] for t in rows if t["exc"]))},
               "verdicts_by_clause": dict(clauses), "canary": can,
               "model_drift": dict(Counter(v[0] for v in drift["verdicts"] if v[0] != "ok")),
               "behaviour_style_validation_algorithm_level": beh}
        return core.finish("C10", tier, seed, LEVEL, cov, rejected, t0, ASSUME)


def replay(path):
    with open(path) as f:
        obs = json.load(f)["observation"]
    table = class_table()
    factory, mk = table[obs["cls"]]
    names = Names()
    # rebuild the request from its shape (lengths / perm); typing variant 0 and 1 are both tried
    rc = 0
    with core.workdir("C10-replay") as work:
        rows = []
        for var in (0, 1):
            if obs["kind"] in ("semswap", "semperm"):
                from discopy import tensor as _t
                from discopy.quantum import circuit as _c
                nl, nr, p = obs["nl"], obs["nr"], list(obs["perm"])
                dimty = table["tensor"][1]
                lt, rt, dom = dimty(nl, var), dimty(nl + nr, var)[nl:], dimty(len(p), var)
                fn = {"Tensor.swap": lambda: _t.Tensor.swap(lt, rt), "Diagram.swap.eval": lambda: _t.Diagram.swap(lt, rt).eval(),
                      "Circuit.swap.eval": lambda: _c.Circuit.swap(_c.qubit ** nl, _c.qubit ** nr).eval(),
                      "Diagram.id.permute.eval": lambda: _t.Diagram.id(dom).permute(*p).eval(),
                      "Circuit.permutation.eval": lambda: _c.Circuit.permutation(list(p), _c.qubit ** len(p)).eval()}[obs["how"]]
                rows.append(sem_row(obs["cls"], obs["kind"], obs["how"], fn, nl + nr if obs["kind"] == "semswap" else len(p), nl, nr, p))
            elif obs["kind"] == "swap":
                nl, nr = len(obs["lt"]), len(obs["rt"])
                lt, rt = mk(nl, var), mk(nl + nr, var)[nl:]
                exc, res = observe(lambda: factory.swap(lt, rt), names)
                rows.append(dict(obs, lt=proj_ty(lt, names), rt=proj_ty(rt, names), exc=exc, res=res))
            else:
                p = list(obs["perm"])
                dom = mk(len(obs["dom"]), var)
                fn = lambda: factory.permutation(list(p), dom)
                if obs.get("how") == "permute":
                    fn = lambda: factory.id(dom).permute(*p)
                elif obs.get("how") == "permute-after-box":
                    from discopy import monoidal as _m, rigid as _r
                    src = mk(len(p) + 2, var)[len(p):][:(2 if len(p) == 1 else 1)]
                    box = (_m.Box if obs["cls"] == "monoidal" else _r.Box)("f", src, dom)
                    fn = lambda: box.permute(*p)[1:]
                exc, res = observe(fn, names)
                rows.append(dict(obs, dom=proj_ty(dom, names), exc=exc, res=res))
        tf = os.path.join(work, "one.ndjson")
        core.write_ndjson(tf, rows)
        for v in core.validate("Trace_Perm", "J10", tf, work, constants={"MaxN": 0})["verdicts"]:
            print("replayed: verdict=%s" % v[0])
            if v[0] != "ok":
                print("VIOLATION property=C10 replay=%s clause=%s" % (path, v[0]))
                rc = 1
    return rc
