"""C08 - tensors form a dagger compact-closed category of matrices."""
import itertools
import json
import os
from collections import Counter, defaultdict

from harness import core, tlaval

LEVEL = "model_checking"
ASSUME = ["entries are Gaussian integers of bounded magnitude, exact in numpy's complex128; the comparison with "
          "the specification's matrices (Mat.tla) is exact equality inside TLC",
          "arrays are the model's register contents (built from generic, deliberately non-symmetric arrays), so "
          "two different axis permutations never agree by accident",
          "bounded: dimension tuples over {2, 3} (and 1, which Dim drops) with at most MaxWires wires per side"]
CONST = {"quick": {"MaxWires": 2, "MaxSize": 16, "MaxEntry": 2000, "replay": 500},
         "thorough": {"MaxWires": 2, "MaxSize": 36, "MaxEntry": 2000, "replay": 3000}}
EMPTY = {"dom": [], "cod": [], "a": [[1, 0]]}


def to_real(t):
    import numpy as np
    from discopy.tensor import Tensor, Dim
    arr = np.array([complex(re, im) for re, im in t["a"]]).reshape(tuple(t["dom"]) + tuple(t["cod"]))
    return Tensor(Dim(*t["dom"]), Dim(*t["cod"]), arr)


def proj(T):
    import numpy as np
    arr = np.asarray(T.array, dtype=complex).flatten()
    out = []
    for v in arr:
        re, im = round(v.real), round(v.imag)
        if re != v.real or im != v.imag:
            raise core.Machinery("non-integer entry %r" % v)
        out.append([int(re), int(im)])
    return {"dom": [int(d) for d in T.dom], "cod": [int(d) for d in T.cod], "a": out}


def run(tier, seed, t0):
    c = CONST[tier]
    consts = {"Dims": "<- DimsV", "MaxWires": c["MaxWires"], "MaxSize": c["MaxSize"], "MaxEntry": c["MaxEntry"]}
    from discopy.tensor import Tensor, Dim
    with core.workdir("C08") as work:
        model = core.run_model("MC_TensorCat", work, constants=consts,
                               invariants=["InvLaws", "InvInterchange", "InvSnake"], view="View", dump=True,
                               timeout=3000)
        states = [st["t"] for st in tlaval.read_dump(model["dump"])]
        os.remove(model["dump"])
        rnd = core.rng(seed, "C08")
        by_dom = defaultdict(list)
        for t in states:
            by_dom[tuple(t["dom"])].append(t)
        sample = states if len(states) <= c["replay"] else rnd.sample(states, c["replay"])
        rows = []

        def rec(op, fn, a=None, b=None, l=(), r=()):
            try:
                res, exc = proj(fn()), ""
            except core.Machinery:
                raise
            except Exception as e:
                res, exc = EMPTY, type(e).__name__
            rows.append({"op": op, "a": a or EMPTY, "b": b or EMPTY, "l": list(l), "r": list(r), "res": res, "exc": exc})

        small = lambda t: max(abs(v) for e in t["a"] for v in e) <= 200
        for ta in sample:
            A = to_real(ta)
            rec("dagger", lambda: A.dagger(), a=ta)
            comp = [t for t in by_dom.get(tuple(ta["cod"]), []) if small(t)]
            if comp and small(ta):
                tb = rnd.choice(comp)
                B = to_real(tb)
                rec("then", lambda: A >> B, a=ta, b=tb)
            tb = rnd.choice(states)
            B = to_real(tb)
            rec("then", lambda: A >> B, a=ta, b=tb)          # mostly non-composable: must be refused
        pool = [t for t in states if small(t)]
        n_pairs = 300 if tier == "quick" else 2000
        for _ in range(n_pairs):
            ta, tb = rnd.choice(pool), rnd.choice(pool)
            if len(ta["a"]) * len(tb["a"]) > 1500:
                continue
            A, B = to_real(ta), to_real(tb)
            rec("tensor", lambda: A @ B, a=ta, b=tb)
            rec("interchange", lambda: A @ Tensor.id(B.dom) >> Tensor.id(A.cod) @ B, a=ta, b=tb)
            rec("swapnat", lambda: Tensor.swap(A.dom, B.dom) >> B @ A, a=ta, b=tb)
        # structural tensors: all dimension tuples over {1, 2, 3} up to length 3 / pairs up to 2+2
        dims = [d for n in range(0, 4) for d in itertools.product((1, 2, 3), repeat=n)]
        for d in dims:
            rec("id", lambda: Tensor.id(Dim(*d)), l=d)
            if len(d) <= 2 or tier == "thorough":
                rec("cups", lambda: Tensor.cups(Dim(*d), Dim(*d[::-1])), l=d)
                rec("caps", lambda: Tensor.caps(Dim(*d), Dim(*d[::-1])), l=d)
                D, Dr = Dim(*d), Dim(*d[::-1])
                rec("snakeL", lambda: Tensor.id(D) @ Tensor.caps(Dr, D) >> Tensor.cups(D, Dr) @ Tensor.id(D), l=d)
                rec("snakeR", lambda: Tensor.caps(D, Dr) @ Tensor.id(D) >> Tensor.id(D) @ Tensor.cups(Dr, D), l=d)
        for l in dims:
            for r in dims:
                if len(l) <= 2 and len(r) <= 2:
                    rec("swap", lambda: Tensor.swap(Dim(*l), Dim(*r)), l=l, r=r)
        tf = os.path.join(work, "trace.ndjson")
        core.write_ndjson(tf, rows)
        val = core.validate("Trace_Tensor", "J08", tf, work, timeout=3000)
        rejected, clauses = core.track([]), Counter()
        for t, v in zip(rows, val["verdicts"]):
            clauses[v[0]] += 1
            if v[0] != "ok":
                rejected.append({"clause": v[0], "sig": "op=%s a=%s->%s b=%s->%s l=%s r=%s exc=%s" % (
                    t["op"], t["a"]["dom"], t["a"]["cod"], t["b"]["dom"], t["b"]["cod"], t["l"], t["r"],
                    t["exc"] or "-"), "obs": t})
        can = None
        for t, v in zip(rows, val["verdicts"]):
            if v[0] == "ok" and t["op"] == "tensor" and len(t["res"]["a"]) >= 4 and t["res"]["a"][1] != t["res"]["a"][2]:
                bad = json.loads(json.dumps(t))
                bad["res"]["a"][1], bad["res"]["a"][2] = bad["res"]["a"][2], bad["res"]["a"][1]
                cf = os.path.join(work, "canary.ndjson")
                core.write_ndjson(cf, [bad])
                got = core.validate("Trace_Tensor", "J08", cf, work)["verdicts"][0][0]
                if got == "ok":
                    raise core.Machinery("canary accepted")
                can = {"corrupted": "two entries of a Kronecker product exchanged", "rejected_with": got}
                break
        if can is None:
            raise core.Machinery("no canary candidate")
        cov = {"states": model["distinct"], "transitions": model["generated"],
               "traces_validated_against_impl": clauses["ok"],
               "samples": [{"op": t["op"], "a": [t["a"]["dom"], t["a"]["cod"]], "b": [t["b"]["dom"], t["b"]["cod"]],
                            "l": t["l"], "r": t["r"], "res_shape": [t["res"]["dom"], t["res"]["cod"]],
                            "res_first_entries": t["res"]["a"][:4], "exc": t["exc"]}
                           for t in (rows[0], rows[len(rows) // 2], rows[-1])],
               "exhaustive": False,
               "model": dict({k: v for k, v in consts.items() if k != "Dims"}, Dims=[2, 3], module="MC_TensorCat",
                             invariants=["InvLaws", "InvInterchange", "InvSnake"], wall_s=model["wall_s"]),
               "replay": {"states_in_model": len(states), "states_replayed": len(sample), "observations": len(rows),
                          "by_op": dict(Counter(t["op"] for t in rows)),
                          "refused": sum(1 for t in rows if t["exc"])},
               "verdicts_by_clause": dict(clauses), "canary": can}
        return core.finish("C08", tier, seed, LEVEL, cov, rejected, t0, ASSUME)


def replay(path):
    with open(path) as f:
        t = json.load(f)["observation"]
    with core.workdir("C08-replay") as work:
        tf = os.path.join(work, "one.ndjson")
        from discopy.tensor import Tensor, Dim
        if t["op"] in ("then", "tensor", "dagger"):
            A, B = to_real(t["a"]), to_real(t["b"])
            fn = {"then": lambda: A >> B, "tensor": lambda: A @ B, "dagger": lambda: A.dagger()}[t["op"]]
            try:
                t["res"], t["exc"] = proj(fn()), ""
            except Exception as e:
                t["res"], t["exc"] = EMPTY, type(e).__name__
        core.write_ndjson(tf, [t])
        v = core.validate("Trace_Tensor", "J08", tf, work)["verdicts"][0][0]
        print("replayed op=%s: verdict=%s" % (t["op"], v))
        if v != "ok":
            print("VIOLATION property=C08 replay=%s clause=%s" % (path, v))
            return 1
    return 0
