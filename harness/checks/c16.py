"""C16 - circuits translate to ZX diagrams denoting the same linear map."""
import json
import os
from collections import Counter

from harness import core, tlaval, qadapt

LEVEL = "model_checking"
ASSUME = ["standard interpretation of ZX generators as in spec/ZX.tla (phases in full turns); proportionality is "
          "decided exactly in Z[e^{i pi/8}][1/sqrt2] (vanishing 2x2 cross products)",
          "gate phases on the 1/8-turn grid (spider phases on the 1/16 grid); off-grid real phases are not claimed",
          "bounded: circuits of MC_Gates restricted to the gate set of the statement, ZX diagrams of the builder "
          "in ZX!ZBuild"]
SUPPORTED = {"Ket", "Bra", "H", "X", "Y", "Z", "CX", "CZ", "Rx", "Rz", "CRz", "CRx", "CU1", "SWAP", "scalar"}
CONST = {"quick": {"replay": 500, "zx": (2, 2), "zx_replay": 600}, "thorough": {"replay": 4000, "zx": (2, 3), "zx_replay": 6000}}
EMPTY_ZX = {"dom": 0, "layers": []}
EMPTY_C = {"dom": 0, "layers": []}


def VC(h="TRUE"):
    return {"MaxQ": 0, "MaxLayers": 0, "Phases": "<- PhasesQ", "Halving": h, "ZMaxW": 0, "ZMaxBoxes": 0}


def observe_c2zx(c, pre=()):
    """pre: circuits translated earlier in the same process (the translation must not depend on that history)"""
    from discopy.quantum.zx import circuit2zx
    rec = {"kind": "c2zx", "c": c, "zx": EMPTY_ZX, "dag": EMPTY_ZX, "exc": "", "pre": list(pre)}
    for p in pre:
        try:
            circuit2zx(qadapt.circuit(p))
        except Exception:
            pass
    try:
        rec["zx"] = qadapt.proj_zx(circuit2zx(qadapt.circuit(c)))
    except qadapt.NotOnGrid as e:
        raise core.Machinery("off-grid value in a ZX image: %s" % e)
    except Exception as e:
        rec["exc"] = type(e).__name__
    return rec


def observe_dag(d):
    rec = {"kind": "zxdag", "c": EMPTY_C, "zx": d, "dag": EMPTY_ZX, "exc": ""}
    try:
        rec["dag"] = qadapt.proj_zx(qadapt.zx_diagram(d).dagger())
    except qadapt.NotOnGrid:
        rec["exc"] = "ValueOffTheGrid"      # every input is on the grid and so is its conjugate: an off-grid adjoint is wrong
    except Exception as e:
        rec["exc"] = type(e).__name__
    return rec


def run(tier, seed, t0):
    c = CONST[tier]
    rnd = core.rng(seed, "C16")
    with core.workdir("C16") as work:
        # the translation table in the model: exact proportionality at all 16 grid phases
        table = core.run_model("MC_ZX", work, spec="ZSpec",
                               constants={"MaxQ": 0, "MaxLayers": 0, "Phases": "<- PhasesAll", "Halving": "TRUE",
                                          "ZMaxW": 2, "ZMaxBoxes": 0}, invariants=["InvTable"], tag="_table")
        zxm = core.run_model("MC_ZX", work, spec="ZSpec",
                             constants={"MaxQ": 0, "MaxLayers": 0, "Phases": "<- PhasesQ", "Halving": "TRUE",
                                        "ZMaxW": c["zx"][0], "ZMaxBoxes": c["zx"][1]},
                             invariants=["InvZXDagger"], dump=True, tag="_zx", timeout=3000)
        zxs = [st["zd"] for st in tlaval.read_dump(zxm["dump"])]
        os.remove(zxm["dump"])
        gm = core.run_model("MC_Gates", work, constants={"MaxQ": 2, "MaxLayers": 2, "Phases": "<- PhasesQ"},
                            dump=True, tag="_gates", timeout=3000)
        circuits = [st["c"] for st in tlaval.read_dump(gm["dump"])
                    if all(l["g"]["k"] in SUPPORTED and not l["g"]["dg"] for l in st["c"]["layers"])]
        os.remove(gm["dump"])
        n_c, n_z = len(circuits), len(zxs)
        singles = [x for x in circuits if len(x["layers"]) <= 1]
        rest = [x for x in circuits if len(x["layers"]) > 1]
        csample = singles + (rest if len(rest) <= c["replay"] else rnd.sample(rest, c["replay"]))
        # all grid phases for the parametrised gates
        G = lambda k, ph: {"k": k, "ph": ph, "bits": [], "dg": 0, "sub": "", "subdg": 0, "re": 0, "im": 0, "s": 0}
        for k, n in (("Rz", 1), ("Rx", 1), ("CRz", 2), ("CRx", 2), ("CU1", 2)):
            for ph in range(-4, 17):
                csample.append({"dom": n, "layers": [{"g": G(k, ph), "off": 0}]})
        # phases many turns away from zero (the translation reduces them; nearby large phases print alike), each
        # translated after a neighbour of the same kind: the image must be a function of the gate alone
        wide = []
        for k, n in (("Rz", 1), ("Rx", 1), ("CRz", 2), ("CRx", 2), ("CU1", 2)):
            for base in (800, 8000, -808):
                for a, b in ((1, 2), (3, 1), (4, 12)):
                    one = lambda ph: {"dom": n, "layers": [{"g": G(k, ph), "off": 0}]}
                    wide.append((one(base + b), [one(base + a)]))
                    wide.append(({"dom": n, "layers": [{"g": G(k, base + a), "off": 0}, {"g": G(k, base + b), "off": 0}]}, []))
        zsample = zxs if len(zxs) <= c["zx_replay"] else rnd.sample(zxs, c["zx_replay"])
        rows = [observe_c2zx(x) for x in csample] + [observe_c2zx(x, pre) for x, pre in wide] + [observe_dag(d) for d in zsample]
        tf = os.path.join(work, "trace.ndjson")
        core.write_ndjson(tf, rows)
        val = core.validate("Trace_ZX", "J16", tf, work, constants=VC(), timeout=3000)
        rejected, clauses = core.track([]), Counter()
        for t, v in zip(rows, val["verdicts"]):
            clauses[v[0]] += 1
            if v[0] != "ok":
                if t["kind"] == "c2zx":
                    kinds = sorted(set(l["g"]["k"] for l in t["c"]["layers"]))
                    nz = sorted(set(l["g"]["k"] for l in t["c"]["layers"] if l["g"]["ph"] % 16))
                    sig = "gates=%s nonzero-phase=%s | %s -> %s exc=%s%s" % (",".join(kinds), ",".join(nz), qadapt.describe(t["c"]),
                                                                          qadapt.describe_zx(t["zx"]), t["exc"] or "-",
                                                                          " after translating " + "; ".join(qadapt.describe(p) for p in t["pre"]) if t.get("pre") else "")
                else:
                    sig = "dagger of %s exc=%s" % (qadapt.describe_zx(t["zx"]), t["exc"] or "-")
                rejected.append({"clause": v[0], "sig": sig, "obs": t})
        # canary: a spider phase changed by one step must break proportionality
        can = None
        for t, v in zip(rows, val["verdicts"]):
            if v[0] == "ok" and t["kind"] == "c2zx" and any(l["b"]["k"] in ("Z", "X") and l["b"]["n"] + l["b"]["m"] == 2 and l["b"]["ph"]
                                                           for l in t["zx"]["layers"]):
                bad = json.loads(json.dumps(t))
                for l in bad["zx"]["layers"]:
                    if l["b"]["k"] in ("Z", "X") and l["b"]["n"] + l["b"]["m"] == 2 and l["b"]["ph"]:
                        l["b"]["ph"] = (l["b"]["ph"] + 1) % 16
                        break
                cf = os.path.join(work, "canary.ndjson")
                core.write_ndjson(cf, [bad])
                got = core.validate("Trace_ZX", "J16", cf, work, constants=VC())["verdicts"][0][0]
                if got != "ok":
                    can = {"corrupted": "one spider phase shifted by 1/16 turn", "rejected_with": got}
                    break
        if can is None:
            raise core.Machinery("canary accepted")
        drift = core.validate("Trace_ZX", "JDrift", tf, work, constants=VC(), timeout=3000)
        cov = {"states": table["distinct"] + zxm["distinct"] + gm["distinct"],
               "transitions": table["generated"] + zxm["generated"] + gm["generated"],
               "traces_validated_against_impl": clauses["ok"],
               "samples": [{"circuit": qadapt.describe(t["c"]), "zx": qadapt.describe_zx(t["zx"])} for t in rows[3:6]] +
                          [{"zx": qadapt.describe_zx(rows[-1]["zx"]), "dagger": qadapt.describe_zx(rows[-1]["dag"])}],
               "exhaustive": False,
               "model": {"MC_ZX": {"InvTable": "all 11 supported gate kinds x 16 grid phases", "InvZXDagger_states": zxm["distinct"],
                                   "ZMaxW": c["zx"][0], "ZMaxBoxes": c["zx"][1]}, "MC_Gates": {"MaxQ": 2, "MaxLayers": 2}},
               "replay": {"supported_circuits_in_model": n_c, "circuits_translated": len(csample) + len(wide), "far_phases_after_a_neighbour": len(wide),
                          "zx_diagrams_in_model": n_z, "zx_daggers": len(zsample)},
               "verdicts_by_clause": dict(clauses), "canary": can,
               "model_drift": dict(Counter(v[0] for v in drift["verdicts"] if v[0] != "ok"))}
        return core.finish("C16", tier, seed, LEVEL, cov, rejected, t0, ASSUME)


def replay(path):
    with open(path) as f:
        t = json.load(f)["observation"]
    with core.workdir("C16-replay") as work:
        t2 = observe_c2zx(t["c"], t.get("pre", ())) if t["kind"] == "c2zx" else observe_dag(t["zx"])
        tf = os.path.join(work, "one.ndjson")
        core.write_ndjson(tf, [t2])
        v = core.validate("Trace_ZX", "J16", tf, work, constants=VC())["verdicts"][0][0]
        print("replayed: verdict=%s" % v)
        if v != "ok":
            print("VIOLATION property=C16 replay=%s clause=%s" % (path, v))
            return 1
    return 0
