"""C17 - export to and import from pyzx graphs preserve the ZX diagram."""
import json
import os
from collections import Counter

from harness import core, tlaval, qadapt

LEVEL = "model_checking"
ASSUME = ["pyzx 0.10.6 is used through the in-process adapter harness/pyzx_adapter.py (list-valued inputs/outputs, "
          "float phases, edge_type(non-edge) = 0), installed by the harness as the property prescribes",
          "the specification's graph semantics (Pyzx!GraphSem) is cross-checked against pyzx.tensorfy on every "
          "exported graph of the run (index order: tensorfy puts outputs first); a mismatch is a machinery failure",
          "spider phases on the 1/16-turn grid; diagrams from the ZX builder of spec/ZX.tla filtered by "
          "Pyzx!SimpleWiring; imported graphs: the exported ones, the same graphs with vertex ids reversed, and "
          "ill-formed boundary declarations (missing / shared)"]
CONST = {"quick": {"zx": (3, 2), "replay": 350, "sim": (3, 5, 120)}, "thorough": {"zx": (3, 3), "replay": 1200, "sim": (4, 4, 300)}}
EMPTY_G = {"vs": [], "es": [], "ins": [], "outs": [], "sc": {"re": 1, "im": 0, "s": 0}}
EMPTY_ZX = {"dom": 0, "layers": []}


def VC():
    return {"MaxQ": 0, "MaxLayers": 0, "Phases": "<- PhasesQ", "Halving": "TRUE", "ZMaxW": 0, "ZMaxBoxes": 0}


def relabel(g):
    """the same graph with vertex ids reversed (v -> n-1-v)"""
    n = len(g["vs"])
    f = lambda v: n - 1 - v
    return {"vs": g["vs"][::-1], "es": sorted([{"u": min(f(e["u"]), f(e["v"])), "v": max(f(e["u"]), f(e["v"])), "h": e["h"]}
                                               for e in g["es"]], key=lambda e: (e["u"], e["v"])),
            "ins": [f(v) for v in g["ins"]], "outs": [f(v) for v in g["outs"]], "sc": g["sc"]}


def leg_family():
    """Hadamard edges on some but not all legs of a multi-leg spider, with and without a swap upstream (the import
    has to put each Hadamard on the wire its edge belongs to, whatever order the graph lists the neighbours in)"""
    ZB = lambda k, n, m, ph=0: {"k": k, "n": n, "m": m, "ph": ph, "re": 0, "im": 0, "s": 0}
    out = []
    for k in ("Z", "X"):
        for n in (2, 3):
            for mask in range(1, 2 ** n - 1):
                for pre in ((), ((0,),), ((n - 2,),), ((0,), (n - 2,))):
                    layers = [{"b": ZB("H", 1, 1), "off": i} for i in range(n) if mask >> i & 1]
                    layers += [{"b": ZB("SWAP", 2, 2), "off": o[0]} for o in pre]
                    layers.append({"b": ZB(k, n, 1, 3), "off": 0})
                    out.append({"dom": n, "layers": layers})
    # Hadamards in a row on one wire (two cancel, three are one), before / after / between spiders and across a swap
    H, S = {"b": ZB("H", 1, 1), "off": 0}, {"b": ZB("SWAP", 2, 2), "off": 0}
    for nh in (2, 3, 4):
        out.append({"dom": 1, "layers": [{"b": ZB("Z", 1, 1, 4), "off": 0}] + [H] * nh + [{"b": ZB("X", 1, 1, 2), "off": 0}]})
        out.append({"dom": 1, "layers": [H] * nh + [{"b": ZB("Z", 1, 2, 3), "off": 0}]})
        out.append({"dom": 1, "layers": [{"b": ZB("X", 1, 1, 5), "off": 0}] + [H] * nh})
        out.append({"dom": 2, "layers": [H] * (nh // 2) + [S] + [{"b": ZB("H", 1, 1), "off": 1}] * (nh - nh // 2) + [{"b": ZB("Z", 2, 1, 3), "off": 0}]})
    # two output legs of one spider, a Hadamard on one of them, then the two legs crossed (the crossing moves the Hadamard
    # to the other output), with and without a phase gate downstream that tells the outputs apart
    for k in ("Z", "X"):
        for n_in in (0, 1):
            for hleg in (0, 1):
                for tail in ((), ({"b": ZB("Z", 1, 1, 2), "off": 0},), ({"b": ZB("X", 1, 1, 2), "off": 1},)):
                    out.append({"dom": n_in, "layers": [{"b": ZB(k, n_in, 2, 1), "off": 0}, {"b": ZB("H", 1, 1), "off": hleg}, S] + list(tail)})
        out.append({"dom": 1, "layers": [{"b": ZB(k, 1, 3, 1), "off": 0}, {"b": ZB("H", 1, 1), "off": 1}, dict(S, off=1), dict(S, off=0)]})
    return out


def run(tier, seed, t0):
    c = CONST[tier]
    rnd = core.rng(seed, "C17")
    from harness import pyzx_adapter as P
    P.install()
    import numpy as np
    import pyzx
    from discopy.quantum import zx
    with core.workdir("C17") as work:
        model = core.run_model("MC_Pyzx", work, spec="ZSpec",
                               constants={"MaxQ": 0, "MaxLayers": 0, "Phases": "<- PhasesQ", "Halving": "TRUE",
                                          "ZMaxW": 2, "ZMaxBoxes": 2 if tier == "quick" else 3},
                               invariants=["InvToPyzx"], timeout=3000)
        gen = core.run_model("MC_Pyzx", work, spec="ZSpec",
                             constants={"MaxQ": 0, "MaxLayers": 0, "Phases": "<- PhasesQ", "Halving": "TRUE",
                                        "ZMaxW": c["zx"][0], "ZMaxBoxes": c["zx"][1]}, dump=True, tag="_gen", timeout=3000)
        zxs = [st["zd"] for st in tlaval.read_dump(gen["dump"])]
        os.remove(gen["dump"])
        n_all = len(zxs)
        sample = zxs if len(zxs) <= c["replay"] else rnd.sample(zxs, c["replay"])
        # deeper diagrams (more wire moves on import): TLC simulation of the builder
        import glob
        w, depth, num = c["sim"]
        simdir = os.path.join(work, "sim")
        os.makedirs(simdir)
        core.run_model("MC_Pyzx", work, spec="ZSpec",
                       constants={"MaxQ": 0, "MaxLayers": 0, "Phases": "<- PhasesQ", "Halving": "TRUE",
                                  "ZMaxW": w, "ZMaxBoxes": depth}, workers=1,
                       simulate="file=%s/tr,num=%d" % (simdir, num), depth=depth + 1, seed=seed, tag="_sim", timeout=3000)
        for path in sorted(glob.glob(os.path.join(simdir, "tr_*"))):
            steps = tlaval.read_simulate(path)
            if steps:
                sample.append(steps[-1][1]["zd"])
            os.remove(path)
        family = leg_family()
        sample = sample + (family if tier != "quick" else family[:-12][::2] + family[-12:])
        rows, tens = [], []
        for d in sample:
            rec = {"kind": "to", "zx": d, "g": EMPTY_G, "exc": "", "bad": ""}
            real_g = None
            try:
                real_g = qadapt.zx_diagram(d).to_pyzx()
                rec["g"] = P.project(real_g)
            except P.OffGrid as e:
                raise core.Machinery("off-grid value in an exported graph: %s" % e)
            except Exception as e:
                rec["exc"] = type(e).__name__
            rows.append(rec)
            try:
                tens.append(None if real_g is None else np.asarray(pyzx.tensorfy(real_g, preserve_scalar=True)))
            except Exception:
                tens.append(None)
            if real_g is None:
                continue
            # import: the exported graph, its relabelling, and ill-formed boundary declarations
            variants = [(rec["g"], "")]
            variants.append((relabel(rec["g"]), ""))
            if rec["g"]["ins"] and len(rows) % 3 == 0:
                variants.append((dict(rec["g"], ins=rec["g"]["ins"][1:]), "missing"))
            if rec["g"]["ins"] and rec["g"]["outs"]:
                # a boundary vertex declared on both sides: the first input (vertex 0 in an exported graph) and the last
                variants.append((dict(rec["g"], outs=rec["g"]["outs"][:-1] + [rec["g"]["ins"][0]]), "shared"))
                # ... and with every boundary vertex still declared (only the sharing is wrong)
                variants.append((dict(rec["g"], outs=rec["g"]["outs"] + [rec["g"]["ins"][0]]), "shared"))
                if len(rec["g"]["ins"]) > 1 and len(rows) % 2 == 0:
                    variants.append((dict(rec["g"], outs=rec["g"]["outs"] + [rec["g"]["ins"][-1]]), "shared"))
            for g, bad in variants:
                r2 = {"kind": "from", "zx": EMPTY_ZX, "g": dict(g, sc={"re": 1, "im": 0, "s": 0}), "exc": "", "bad": bad}
                try:
                    back = zx.Diagram.from_pyzx(P.build(g))
                    r2["zx"] = qadapt.proj_zx(back)
                except qadapt.NotOnGrid as e:
                    raise core.Machinery("off-grid value in an imported diagram: %s" % e)
                except Exception as e:
                    r2["exc"] = type(e).__name__
                rows.append(r2)
                tens.append(None)
        tf = os.path.join(work, "trace.ndjson")
        core.write_ndjson(tf, rows)
        val = core.validate_parallel("Trace_Pyzx", "J17", tf, work, constants=VC(), timeout=3000)
        # cross-oracle: the spec's GraphSem against pyzx.tensorfy (validates the specification)
        n_cross = 0
        for t, row, ten in zip(rows, val["rows"], tens):
            if t["kind"] == "to" and ten is not None and row["e"]:
                ni, no = len(t["g"]["ins"]), len(t["g"]["outs"])
                exp = np.array([core.ring_to_complex(p) for p in row["e"]]).reshape((2,) * (ni + no))
                # tensorfy: outputs first, then inputs
                got = np.moveaxis(ten.reshape((2,) * (no + ni)), list(range(no)), list(range(ni, ni + no)))
                if np.max(np.abs(exp - got)) > 1e-9:
                    raise core.Machinery("Pyzx!GraphSem disagrees with pyzx.tensorfy on %s" % json.dumps(t["g"]))
                n_cross += 1
        rejected, clauses = core.track([]), Counter()
        for t, v in zip(rows, val["verdicts"]):
            clauses[v[0]] += 1
            if v[0] != "ok":
                sig = "%s %s bad=%s exc=%s had-edges=%d graph-vertices=%d" % (
                    t["kind"], qadapt.describe_zx(t["zx"]), t["bad"] or "-", t["exc"] or "-",
                    sum(e["h"] for e in t["g"]["es"]), len(t["g"]["vs"]))
                rejected.append({"clause": v[0], "sig": sig, "obs": t})
        can = None
        for t, v in zip(rows, val["verdicts"]):
            if v[0] == "ok" and t["kind"] == "to" and any(x["ty"] and x["ph"] for x in t["g"]["vs"]) and not t["exc"]:
                bad = json.loads(json.dumps(t))
                for x in bad["g"]["vs"]:
                    if x["ty"] and x["ph"]:
                        x["ph"] = (x["ph"] + 1) % 16
                        break
                cf = os.path.join(work, "canary.ndjson")
                core.write_ndjson(cf, [bad])
                got = core.validate("Trace_Pyzx", "J17", cf, work, constants=VC())["verdicts"][0][0]
                if got != "ok":
                    can = {"corrupted": "one vertex phase shifted by 1/16 turn", "rejected_with": got}
                    break
        if can is None:
            raise core.Machinery("canary accepted")
        drift = core.validate_parallel("Trace_Pyzx", "JDrift", tf, work, constants=VC(), timeout=3000)
        cov = {"states": model["distinct"] + gen["distinct"], "transitions": model["generated"] + gen["generated"],
               "traces_validated_against_impl": clauses["ok"],
               "samples": [{"kind": t["kind"], "zx": qadapt.describe_zx(t["zx"]), "vertices": len(t["g"]["vs"]),
                            "edges": len(t["g"]["es"]), "bad": t["bad"], "exc": t["exc"]} for t in rows[10:13]],
               "exhaustive": False,
               "model": {"module": "MC_Pyzx", "InvToPyzx_states": model["distinct"], "builder": c["zx"]},
               "replay": {"zx_diagrams_in_model": n_all, "exported": sum(1 for t in rows if t["kind"] == "to"),
                          "imported": sum(1 for t in rows if t["kind"] == "from"),
                          "ill_formed_boundaries": sum(1 for t in rows if t["bad"]),
                          "graphsem_vs_tensorfy_crosschecks": n_cross},
               "verdicts_by_clause": dict(clauses), "canary": can,
               "model_drift": dict(Counter(v[0] for v in drift["verdicts"] if v[0] != "ok"))}
        return core.finish("C17", tier, seed, LEVEL, cov, rejected, t0, ASSUME)


def replay(path):
    with open(path) as f:
        t = json.load(f)["observation"]
    from harness import pyzx_adapter as P
    P.install()
    from discopy.quantum import zx
    with core.workdir("C17-replay") as work:
        if t["kind"] == "to":
            try:
                t["g"], t["exc"] = P.project(qadapt.zx_diagram(t["zx"]).to_pyzx()), ""
            except Exception as e:
                t["exc"] = type(e).__name__
        else:
            try:
                t["zx"], t["exc"] = qadapt.proj_zx(zx.Diagram.from_pyzx(P.build(t["g"]))), ""
            except Exception as e:
                t["exc"] = type(e).__name__
        tf = os.path.join(work, "one.ndjson")
        core.write_ndjson(tf, [t])
        v = core.validate("Trace_Pyzx", "J17", tf, work, constants=VC())["verdicts"][0][0]
        print("replayed: verdict=%s" % v)
        if v != "ok":
            print("VIOLATION property=C17 replay=%s clause=%s" % (path, v))
            return 1
    return 0
