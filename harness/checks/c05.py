"""C05 - interchange moves exactly one box past a disconnected neighbour."""
from harness import core
from harness.checks import _diagapi

LEVEL = "model_checking"
ASSUME = ["'wired to' is read as a planar obstruction (DESIGN 5/C05); a refusal is accepted iff some "
          "admissible path of adjacent moves is blocked",
          "'same denotation under every monoidal functor' is discharged in the model (Adj results are "
          "interchanger-equivalent by construction) and on the code by C09's interchange invariance",
          "bounded: diagrams of the exhaustive model (constants in coverage.model) and simulated histories"]


def run(tier, seed, t0):
    cov, rej = _diagapi.run("C05", "J05", tier, seed, t0, invariants=["InvWellTyped", "InvInterchange"],
                            drift=True, families=True)
    # the two-generator machine: effects directly followed by states at the same offset (the pairs on which the two
    # preferences differ), every diagram of up to three boxes and a sample of the deeper ones
    covt, rejt = _diagapi.run("C05", "J05", tier, seed, t0, cls="tie", invariants=["InvWellTyped", "InvInterchange"])
    cov["tie_machine"] = {k: covt[k] for k in ("states", "transitions", "traces_validated_against_impl", "model", "replay",
                                               "verdicts_by_clause", "canary")}
    cov["states"] += covt["states"]
    cov["transitions"] += covt["transitions"]
    cov["traces_validated_against_impl"] += covt["traces_validated_against_impl"]
    # rigid diagrams (cups, caps, swaps, adjoint types) go through the same interchange code and are upgraded back
    covr, rejr = _diagapi.run("C05", "J05", tier, seed, t0, cls="rigid", invariants=["InvWellTyped", "InvInterchange"])
    cov["rigid_machine"] = {k: covr[k] for k in ("states", "transitions", "traces_validated_against_impl", "model", "replay",
                                                 "verdicts_by_clause", "canary")}
    cov["states"] += covr["states"]
    cov["transitions"] += covr["transitions"]
    cov["traces_validated_against_impl"] += covr["traces_validated_against_impl"]
    return core.finish("C05", tier, seed, LEVEL, cov, rej + rejt + rejr, t0, ASSUME)


def replay(path):
    return _diagapi.replay_one("C05", "J05", path)
