"""C20 - the drawing layout is a faithful planar embedding of the diagram."""
import json
import multiprocessing as mp
import os
import shutil
import tempfile
from collections import Counter
from fractions import Fraction

from harness import core, tlaval

LEVEL = "model_checking"
ASSUME = ["diagrams are abstracted to their shape (number of inputs; arity in/out and offset of each box): the "
          "layout code only looks at lengths and offsets (one atom 'x', boxes named by shape)",
          "coordinates are compared exactly: x scaled by 2^(2*MaxBoxes+1), y by 4, and by the common denominator if a "
          "layout lies on another rational grid (the predicates only compare coordinates); irrational positions are a "
          "machinery failure",
          "what the pictures look like (pixels, fonts) is not decided; 'renders' = Diagram.draw returns without "
          "exception for the TikZ and matplotlib (Agg) back-ends",
          "bounded: all shapes within the model constants (sampled for replay/rendering in the quick tier)"]
CONST = {"quick": {"MaxBoxes": 3, "MaxWidth": 3, "MaxAr": 3, "replay": 2500, "render": 120, "wide": (6, 5, 8000)},
         "thorough": {"MaxBoxes": 4, "MaxWidth": 4, "MaxAr": 3, "replay": 25000, "render": 1000, "wide": (7, 6, 12000)}}
KIND = {"input": "in", "output": "out", "box": "box", "dom": "dom", "cod": "cod"}


def build(dm, bs):
    from discopy.monoidal import Ty, Box, Id
    x = Ty('x')
    d = Id(x ** dm)
    boxes = {}
    seq = []
    for b in bs:
        key = (b["a"], b["c"])
        box = boxes.setdefault(key, Box("b%d%d" % key, x ** b["a"], x ** b["c"]))
        seq.append(box)
        d = d >> Id(d.cod[:b["off"]]) @ box @ Id(d.cod[b["off"] + b["a"]:])
    return d, seq, list(boxes.values())


def nid(node):
    k = KIND[node.kind]
    if k in ("in", "out"):
        return [k, node.i, 0]
    if k == "box":
        return [k, 0, node.depth]
    return [k, node.i, node.depth]


def observe(dm, bs, K, render, tmp):
    from discopy.drawing import diagram2nx, diagramize
    from discopy.monoidal import Id, Ty
    from discopy.cartesian import tuplify
    d, seq, sig = build(dm, bs)
    graph, pos = diagram2nx(d)
    # exact coordinates: x * K and y * 4 are integers for the library's own algorithm; a layout on another grid (thirds,
    # say) is rescaled by the common denominator - the predicates of Layout.tla only compare coordinates
    import math
    fr = {node: (Fraction(px).limit_denominator(10 ** 6) * K, Fraction(py).limit_denominator(10 ** 6) * 4) for node, (px, py) in pos.items()}
    mx = math.lcm(*[f[0].denominator for f in fr.values()] or [1])
    my = math.lcm(*[f[1].denominator for f in fr.values()] or [1])
    exact = mx * my <= 10 ** 6 and all(abs(float(fr[n][0]) - px * K) < 1e-9 and abs(float(fr[n][1]) - py * 4) < 1e-9 for n, (px, py) in pos.items())
    nodes = [{"n": nid(node), "x": int(fx * mx), "y": int(fy * my)} for node, (fx, fy) in fr.items()]
    edges = [[nid(a), nid(b)] for a, b in graph.edges]
    rec = {"dm": dm, "bs": bs, "nodes": nodes, "edges": edges, "exact": exact, "tikz": "-", "mat": "-", "dz": "-"}
    if render:
        for key, kw in (("tikz", {"to_tikz": True, "path": os.path.join(tmp, "d.tikz")}),
                        ("mat", {"path": os.path.join(tmp, "d.png")})):
            try:
                d.draw(**kw)
                rec[key] = ""
            except Exception as e:
                rec[key] = type(e).__name__
            finally:
                import matplotlib.pyplot as plt
                plt.close("all")
    # diagramize: declare the same wiring with function-call syntax, wires used in planar order
    try:
        x = Ty('x')

        def body(*inputs):
            scan = list(inputs)
            for box, b in zip(seq, bs):
                outs = box(*scan[b["off"]:b["off"] + b["a"]], offset=b["off"])
                outs = list(tuplify(outs)) if b["c"] else []
                scan = scan[:b["off"]] + outs + scan[b["off"] + b["a"]:]
            return tuple(scan)
        res = diagramize(dom=x ** dm, cod=d.cod, boxes=sig, id_factory=Id)(body)
        rec["dz"] = "" if res == d else "differs"
    except Exception as e:
        rec["dz"] = type(e).__name__
    return rec


def _work(args):
    shapes, K, out, nrender = args
    tmp = tempfile.mkdtemp(prefix="c20-")
    try:
        with open(out, "w") as f:
            for k, (dm, bs) in enumerate(shapes):
                f.write(json.dumps(observe(dm, bs, K, k < nrender and (dm > 0 or bs), tmp)) + "\n")
    finally:
        shutil.rmtree(tmp, ignore_errors=True)
    return len(shapes)


def describe(t):
    return "inputs=%d boxes=%s" % (t["dm"], ["%d->%d@%d" % (b["a"], b["c"], b["off"]) for b in t["bs"]])


def run(tier, seed, t0):
    c = CONST[tier]
    consts = {k: c[k] for k in ("MaxBoxes", "MaxWidth", "MaxAr")}
    K = 2 ** (2 * c["MaxBoxes"] + 1)
    with core.workdir("C20") as work:
        model = core.run_model("MC_Layout", work, constants=consts,
                               invariants=["InvNodes", "InvOrder", "InvVertical", "InvDown", "InvBoxBetween"],
                               dump=True, timeout=3000)
        shapes = [(st["dm"], st["bs"]) for st in tlaval.read_dump(model["dump"])]
        os.remove(model["dump"])
        n_all = len(shapes)
        rnd = core.rng(seed, "C20")
        if len(shapes) > c["replay"]:
            shapes = rnd.sample(shapes, c["replay"])
        # wide shapes (few boxes, many wires, large arity changes: the padding then shifts by more than one unit)
        wide = core.run_model("MC_Layout", work, constants=dict(consts, MaxBoxes=2, MaxWidth=c["wide"][0], MaxAr=c["wide"][1]),
                              dump=True, timeout=3000, tag="_wide")
        wshapes = [(st["dm"], st["bs"]) for st in tlaval.read_dump(wide["dump"]) if len(st["bs"]) == 2]
        os.remove(wide["dump"])
        shapes += rnd.sample(wshapes, min(len(wshapes), c["wide"][2]))
        procs = 16
        chunks = [(shapes[k::procs], K, os.path.join(work, "obs-%d.ndjson" % k), c["render"] // procs + 1)
                  for k in range(procs)]
        with mp.get_context("fork").Pool(procs) as pool:
            pool.map(_work, chunks)
        tf = os.path.join(work, "trace.ndjson")
        with open(tf, "w") as fo:
            for ch in chunks:
                with open(ch[2]) as f:
                    fo.write(f.read())
        rows = core.read_ndjson(tf)
        if not all(t["exact"] for t in rows):
            raise core.Machinery("a coordinate is not a multiple of 1/K: scaling assumption broken")
        val = core.validate("Trace_Layout", "J20", tf, work, constants=consts)
        rejected, clauses = core.track([]), Counter()
        for t, v in zip(rows, val["verdicts"]):
            clauses[v[0]] += 1
            if v[0] != "ok":
                rejected.append({"clause": v[0], "sig": "%s tikz=%s mat=%s dz=%s" % (
                    describe(t), t["tikz"], t["mat"], t["dz"]), "obs": {"dm": t["dm"], "bs": t["bs"]}})
        can = None
        for t, v in zip(rows, val["verdicts"]):
            if v[0] == "ok" and len(t["bs"]) >= 2 and len(t["nodes"]) > 4:
                bad = json.loads(json.dumps(t))
                k = next(i for i, n in enumerate(bad["nodes"]) if n["n"][0] == "box")
                bad["nodes"][k]["x"] += 64 * K
                cf = os.path.join(work, "canary.ndjson")
                core.write_ndjson(cf, [bad])
                got = core.validate("Trace_Layout", "J20", cf, work, constants=consts)["verdicts"][0][0]
                if got != "ok":
                    can = {"corrupted": "x coordinate of one box moved far right", "rejected_with": got}
                    break
        if can is None:
            raise core.Machinery("canary accepted")
        drift = core.validate("Trace_Layout", "JDrift", tf, work, constants=consts)
        cov = {"states": model["distinct"], "transitions": model["generated"],
               "traces_validated_against_impl": clauses["ok"],
               "samples": [{"shape": describe(t), "nodes": len(t["nodes"]), "edges": len(t["edges"]),
                            "tikz": t["tikz"], "mat": t["mat"], "diagramize": t["dz"]} for t in rows[:3]],
               "exhaustive": len(shapes) == n_all,
               "model": dict(consts, module="MC_Layout", wall_s=model["wall_s"],
                             invariants=["InvNodes", "InvOrder", "InvVertical", "InvDown", "InvBoxBetween"]),
               "replay": {"shapes_in_model": n_all, "wide_shapes_in_model": len(wshapes), "layouts_replayed": len(rows),
                          "rendered_tikz": sum(1 for t in rows if t["tikz"] != "-"),
                          "rendered_matplotlib": sum(1 for t in rows if t["mat"] != "-"),
                          "diagramize": dict(Counter(t["dz"] or "equal" for t in rows))},
               "verdicts_by_clause": dict(clauses), "canary": can,
               "model_drift": dict(Counter(v[0] for v in drift["verdicts"] if v[0] != "ok"))}
        return core.finish("C20", tier, seed, LEVEL, cov, rejected, t0, ASSUME)


def replay(path):
    with open(path) as f:
        obs = json.load(f)["observation"]
    n = max(3, len(obs["bs"]))
    consts = {"MaxBoxes": n, "MaxWidth": 9, "MaxAr": 9}
    with core.workdir("C20-replay") as work:
        out = os.path.join(work, "one.ndjson")
        _work(([(obs["dm"], obs["bs"])], 2 ** (2 * n + 1), out, 1))
        v = core.validate("Trace_Layout", "J20", out, work, constants=consts)["verdicts"][0][0]
        print("replayed %s: verdict=%s" % (describe(obs), v))
        if v != "ok":
            print("VIOLATION property=C20 replay=%s clause=%s" % (path, v))
            return 1
    return 0
