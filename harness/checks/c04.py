"""C04 - functors are functorial."""
import json
import multiprocessing as mp
import os
from collections import Counter

from harness import core, tlaval
from harness.project import proj_diagram, proj_ty

LEVEL = "model_checking"
ASSUME = ["configurations: object images from Functor!ObMenu (types of length 0..2, including adjoint atoms), box "
          "images from three shapes (one box, two-box composite, scalar next to a box), given as dict, as a callable backed by that dict, or as a callable looking images up by box name",
          "'the image is the composite of the images of the layers' is required exactly for diagrams without swaps; "
          "for swaps the statement only asks for a swap diagram of the image types (law 'swap' compares with the "
          "library's own Diagram.swap; the decomposition is C10's subject)",
          "bounded: rigid diagrams within the model constants (sampled for replay in the quick tier)"]
CONST = {"quick": {"inv": (2, 3), "dump": (2, 3), "replay": 1500}, "thorough": {"inv": (2, 3), "dump": (3, 3), "replay": 12000}}
OBMENU = [[], [[3, 0]], [[3, 0], [4, 0]], [[4, 0], [3, 0]], [[4, -1], [3, 1]]]
SIG = {1: ([[1, 0]], [[2, 0]]), 2: ([[2, 0]], [[1, 0], [1, 0]]), 3: ([[1, 0], [2, 0]], [[1, 0]]),
       4: ([], [[1, 0]]), 5: ([[1, 1]], [[1, 1]])}
LAWS = ["then", "tensor", "id", "slices", "sum", "adjoint_l", "adjoint_r", "cup", "cap", "swap", "dom_cod", "dagger"]


def _work(args):
    items, out, salt = args
    from discopy import rigid
    from harness.adapters.free import RigidAdapter
    A = RigidAdapter()
    A.ATOMS = {1: "x", 2: "y", 3: "a", 4: "b"}
    A.names = type(A.names)({"Ob:%r" % v: k for k, v in A.ATOMS.items()})
    x, y = rigid.Ty('x'), rigid.Ty('y')
    with open(out, "w") as f:
        for k, (cfg, dabs) in enumerate(items):
            ob = {x: A.ty(OBMENU[cfg["ox"] - 1]), y: A.ty(OBMENU[cfg["oy"] - 1])}
            F0 = rigid.Functor(ob=ob, ar={})
            ar = {}
            for bid, (dm, cd) in SIG.items():
                src = A.box({"id": bid, "kind": 0, "dom": dm, "cod": cd, "dg": 0})
                idm, icd = F0(src.dom), F0(src.cod)
                if cfg["mode"] == 1:
                    img = rigid.Box("b%d" % (100 + bid), idm, icd)
                elif cfg["mode"] == 2:
                    a = rigid.Ty('a')
                    img = rigid.Box("b%d" % (100 + bid), idm, a) >> rigid.Box("b%d" % (200 + bid), a, icd)
                else:
                    img = rigid.Box("b300", rigid.Ty(), rigid.Ty()) @ rigid.Id(idm) >> rigid.Box("b%d" % (100 + bid), idm, icd)
                ar[src] = img
            if (k + salt) % 3 == 1:
                obd, ard = dict(ob), dict(ar)
                F = rigid.Functor(ob=lambda t: obd[t], ar=lambda b: ard[b])
            elif (k + salt) % 3 == 2:
                # a callable that looks the image up by the name of the box (never raises on daggered boxes)
                obd, by_name = dict(ob), {b.name: img for b, img in ar.items()}
                F = rigid.Functor(ob=lambda t: obd[t], ar=lambda b: by_name[b.name])
            else:
                F = rigid.Functor(ob=ob, ar=ar)
            d = A.build(dabs, k % 2)
            rec = {"cfg": cfg, "d": dabs, "exc": "", "laws": {n: 2 for n in LAWS},
                   "img": {"dom": [], "cod": [], "boxes": [], "offs": []}, "swapmw": 0}
            try:
                img = F(d)
                rec["img"] = proj_diagram(img, A.names, layers=False)
            except Exception as e:
                rec["exc"] = type(e).__name__
                f.write(json.dumps(rec) + "\n")
                continue

            def law(name, fn):
                try:
                    rec["laws"][name] = 1 if fn() else 0
                except Exception:
                    rec["laws"][name] = 0
            n = len(d)
            law("dom_cod", lambda: img.dom == F(d.dom) and img.cod == F(d.cod))
            law("slices", lambda: all(F(d[:j]) >> F(d[j:]) == img for j in range(n + 1)))
            law("then", lambda: all(F(d[:j] >> d[j:]) == F(d[:j]) >> F(d[j:]) for j in range(n + 1)))
            law("tensor", lambda: F(d @ d) == img @ img and F(d @ rigid.Id(x)) == img @ F(rigid.Id(x)))
            law("id", lambda: F(rigid.Id(d.cod)) == rigid.Id(F(d.cod)) and F(rigid.Id(d.dom)) == rigid.Id(F(d.dom)))
            law("sum", lambda: F(d + d) == img + img and F(rigid.Diagram.sum([], d.dom, d.cod)) == rigid.Diagram.sum([], img.dom, img.cod)
                and (lambda one: hasattr(one, "terms") and len(one.terms) == 1 and one.terms[0] == img
                     and one == rigid.Diagram.sum([img]))(F(rigid.Diagram.sum([d]))))     # a one-term sum stays a sum
            law("adjoint_l", lambda: F(d.cod.l) == F(d.cod).l and F(d.dom.l) == F(d.dom).l)
            law("adjoint_r", lambda: F(d.cod.r) == F(d.cod).r and F(d.dom.r) == F(d.dom).r)
            cups = [b for b in d.boxes if isinstance(b, rigid.Cup)]
            caps = [b for b in d.boxes if isinstance(b, rigid.Cap)]
            swaps = [b for b in d.boxes if isinstance(b, rigid.Swap)]
            law("cup", lambda: all(F(b) == rigid.cups(F(b.dom[:1]), F(b.dom[1:])) for b in cups))
            law("cap", lambda: all(F(b) == rigid.caps(F(b.cod[:1]), F(b.cod[1:])) for b in caps))
            law("swap", lambda: all(F(b) == rigid.Diagram.swap(F(b.dom[:1]), F(b.dom[1:])) for b in swaps))
            law("dagger", lambda: F(d[::-1]) == img[::-1])
            rec["swapmw"] = int(any(len(F(b.dom[:1])) >= 2 and len(F(b.dom[1:])) >= 2 for b in swaps))
            f.write(json.dumps(rec) + "\n")
    return len(items)


def describe(d):
    def b(x):
        return {1: "Swap", 2: "Cup", 3: "Cap"}.get(x["kind"], "b%d%s" % (x["id"], "+" if x["dg"] else ""))
    return "dom=%s %s" % ([tuple(a) for a in d["dom"]], " ".join("%s@%d" % (b(x), o) for x, o in zip(d["boxes"], d["offs"])))


VC = {"MaxBoxes": 0, "MaxWidth": 0}


def run(tier, seed, t0):
    c = CONST[tier]
    with core.workdir("C04") as work:
        model = core.run_model("MC_Functor", work, constants={"MaxBoxes": c["inv"][0], "MaxWidth": c["inv"][1]},
                               invariants=["InvTyped", "InvFunctorial", "InvDagger"], dump=(c["dump"] == c["inv"]),
                               timeout=3000)
        if c["dump"] != c["inv"]:
            gen = core.run_model("MC_Functor", work, constants={"MaxBoxes": c["dump"][0], "MaxWidth": c["dump"][1]},
                                 dump=True, timeout=3000, tag="_gen")
        else:
            gen = model
        items = [(st["cfg"], st["d"]) for st in tlaval.read_dump(gen["dump"])]
        os.remove(gen["dump"])
        n_all = len(items)
        rnd = core.rng(seed, "C04")
        if len(items) > c["replay"]:
            items = rnd.sample(items, c["replay"])
        procs = 16
        chunks = [(items[k::procs], os.path.join(work, "obs-%d.ndjson" % k), k) for k in range(procs)]
        with mp.get_context("fork").Pool(procs) as pool:
            pool.map(_work, chunks)
        tf = os.path.join(work, "trace.ndjson")
        with open(tf, "w") as fo:
            for ch in chunks:
                with open(ch[1]) as f:
                    fo.write(f.read())
        rows = core.read_ndjson(tf)
        val = core.validate("Trace_Functor", "J04", tf, work, constants=VC, timeout=3000)
        rejected, clauses = core.track([]), Counter()
        for t, v in zip(rows, val["verdicts"]):
            clauses[v[0]] += 1
            if v[0] != "ok":
                rejected.append({"clause": v[0], "sig": "swap-with-two-multiwire-images=%d cfg=%s %s" % (
                    t["swapmw"], [t["cfg"]["ox"], t["cfg"]["oy"], t["cfg"]["mode"]], describe(t["d"])),
                    "obs": {"cfg": t["cfg"], "d": t["d"]}})
        can = None
        for t, v in zip(rows, val["verdicts"]):
            if v[0] == "ok" and len(t["img"]["offs"]) >= 2 and not any(b["kind"] == 1 for b in t["d"]["boxes"]):
                bad = json.loads(json.dumps(t))
                bad["img"]["offs"][-1] += 1
                cf = os.path.join(work, "canary.ndjson")
                core.write_ndjson(cf, [bad])
                got = core.validate("Trace_Functor", "J04", cf, work, constants=VC)["verdicts"][0][0]
                if got == "ok":
                    raise core.Machinery("canary accepted")
                can = {"corrupted": "last offset of the image", "rejected_with": got}
                break
        if can is None:
            if not rejected:
                raise core.Machinery("no canary candidate")
            # (every observation was rejected: the violations are reported, there is nothing accepted left to corrupt)
            can = {"skipped": "no accepted observation to corrupt; violations reported"}
        drift = core.validate("Trace_Functor", "JDrift", tf, work, constants=VC, timeout=3000)
        cov = {"states": model["distinct"], "transitions": model["generated"],
               "traces_validated_against_impl": clauses["ok"],
               "samples": [{"cfg": t["cfg"], "diagram": describe(t["d"]), "image_boxes": len(t["img"]["boxes"]),
                            "laws": t["laws"]} for t in (rows[0], rows[len(rows) // 2], rows[-1])],
               "exhaustive": len(items) == n_all,
               "model": {"module": "MC_Functor", "inv_bounds": c["inv"], "dump_bounds": c["dump"],
                         "invariants": ["InvTyped", "InvFunctorial", "InvDagger"], "wall_s": model["wall_s"],
                         "configurations": 75},
               "replay": {"pairs_in_model": n_all, "pairs_replayed": len(rows),
                          "law_instances": sum(1 for t in rows for v in t["laws"].values() if v != 2)},
               "verdicts_by_clause": dict(clauses), "canary": can,
               "model_drift": dict(Counter(v[0] for v in drift["verdicts"] if v[0] != "ok"))}
        return core.finish("C04", tier, seed, LEVEL, cov, rejected, t0, ASSUME)


def replay(path):
    with open(path) as f:
        obs = json.load(f)["observation"]
    with core.workdir("C04-replay") as work:
        out = os.path.join(work, "one.ndjson")
        _work(([(obs["cfg"], obs["d"])], out, 0))
        v = core.validate("Trace_Functor", "J04", out, work, constants=VC)["verdicts"][0][0]
        print("replayed %s: verdict=%s" % (describe(obs["d"]), v))
        if v != "ok":
            print("VIOLATION property=C04 replay=%s clause=%s" % (path, v))
            return 1
    return 0
