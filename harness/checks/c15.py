"""C15 - diagrammatic gradients evaluate to the gradient of the evaluation."""
import glob
import json
import math
import multiprocessing as mp
import os
from collections import Counter

from harness import core, tlaval, qadapt
from harness.checks import c14

LEVEL = "model_checking"
ASSUME = ["phases are affine forms over two symbols; the exact derivative A + pi B of the evaluation at grid points is "
          "computed by TLC (Grad.tla: multilinearity in the boxes, d/dphase of a rotation = pi * rotation by an extra "
          "half turn, product rule for the doubled map, d|s|^2 for amplitude scalars); TLC also proves the parameter-"
          "shift identity exactly at all 16 grid phases",
          "the formal sum returned by grad is evaluated symbolically by the library; the harness substitutes the point "
          "entry by entry with sympy (DisCoPy's own subs/lambdify are C14's subject)",
          "grad raising NotImplementedError (parameter shift of multi-qubit rotations) is a refusal: no formal sum is "
          "returned, nothing is claimed; the evidence counts refusals",
          "square-root scalars (gates.Sqrt) are covered by a family of circuits evaluated where the value under the root is a power of two", "jacobians over one variable (pure and default mode) and over both variables (default mode) are compared with the stacked exact derivatives; tensor diagrams with symbolic boxes and bubbles are not covered by this check yet"]
CONST = {"quick": {"PMaxLayers": 2, "replay": 150}, "thorough": {"PMaxLayers": 3, "replay": 1000}}
POINTS = [[1, 3], [2, 5], [0, 4], [7, 2]]


def sqrt_family():
    """circuits that depend on a symbol through a square-root scalar (gates.Sqrt), at points where the value under the
    root is a power of two (so that the root and its derivative lie in the exact ring); (circuit, symbol, point)"""
    from harness.checks.c13 import _mg

    def P(k, c0, cx, cy, **kw):
        return dict(_mg(k, **kw), par=1, pf={"c0": c0, "cx": cx, "cy": cy})
    out = []
    roots = [(P("sqrt", 0, 2, 0), "x", [[1, 3], [2, 5], [4, 1]]),        # sqrt(2x): 1/2, 1/sqrt2, 1
             (P("sqrt", 1, 0, 1), "y", [[2, 1], [5, 3], [0, 7]]),        # sqrt(y + 1/8)
             (P("sqrt", 0, 1, 1), "x", [[1, 1], [3, 1], [1, 7]])]        # sqrt(x + y)
    rots = [[], [P("Rx", 0, 0, 1)], [P("Rz", 1, 1, 0), _mg("H")], [P("Ry", 0, 1, 1)]]
    for root, v, pts in roots:
        for tail in rots:
            for pt in pts:
                layers = [{"g": root, "off": 0}] + [{"g": g, "off": 0} for g in tail]
                out.append(({"ty": ["q"], "layers": layers}, v, pt))
                out.append(({"ty": ["q"], "layers": layers[1:] + layers[:1]}, v, pt))
    return out


def VC():
    return {"MaxQ": 0, "MaxLayers": 0, "Phases": "<- PhasesQ", "MaxWeight": 0, "MaxMLayers": 0, "PMaxLayers": 0, "PMaxSteps": 0}


def eval_at(g, point, mixed):
    """evaluate the formal sum symbolically and substitute the point with sympy"""
    import numpy as np
    import sympy
    x, y = c14.syms()
    val = g.eval(mixed=True) if mixed else g.eval()
    if isinstance(val, int) and val == 0:
        return None          # the empty sum
    out = []
    for v in np.asarray(val.array).flatten():
        v = sympy.sympify(v).subs([(x, sympy.Rational(point[0], 8)), (y, sympy.Rational(point[1], 8))])
        out.append(complex(sympy.N(v, 30)))
    return out


def observe(args):
    pc, v, pt, with_jac = args
    x, y = c14.syms()
    S = {"x": x, "y": y}
    rec = {"jac1p": None, "jac1p_exc": "", "jac1m": None, "jac1m_exc": "", "jac2m": None, "jac2m_exc": "", "build": "", "pure": None, "pure_exc": "", "pure_terms": -1, "mixed": None, "mixed_exc": "", "mixed_terms": -1}
    try:
        d = c14.real_circuit(pc)
    except Exception as e:
        rec["build"] = type(e).__name__
        return rec
    # jacobians: over one variable (pure and default mode) and over both variables (default mode)
    for name, variables, kw in (("jac1p", [S[v]], {"mixed": False}), ("jac1m", [S[v]], {}), ("jac2m", [x, y], {})):
        if not with_jac:
            rec[name + "_exc"] = "skipped"
            continue
        try:
            J = d.jacobian(variables, **kw)
            rec[name] = eval_at(J, pt, name != "jac1p")
            if rec[name] is None:
                rec[name] = []
        except NotImplementedError:
            rec[name + "_exc"] = "NotImplementedError"
        except Exception as e:
            rec[name + "_exc"] = type(e).__name__
    for mode, kw in (("pure", {"mixed": False}), ("mixed", {})):
        try:
            g = d.grad(S[v], **kw)
            rec[mode + "_terms"] = len(g.terms)
            rec[mode] = eval_at(g, pt, mode == "mixed")
        except NotImplementedError:
            rec[mode + "_exc"] = "NotImplementedError"
        except Exception as e:
            rec[mode + "_exc"] = type(e).__name__
    return rec


def cmp(A, B, got):
    ys = [core.ring_to_complex(a) + math.pi * core.ring_to_complex(b) for a, b in zip(A, B)]
    if got is None:
        return all(abs(yv) <= 1e-9 for yv in ys)
    if len(ys) != len(got):
        return False
    scale = max([abs(yv) for yv in ys] + [1.0])
    return max([abs(a - b) for a, b in zip(got, ys)] + [0.0]) <= 1e-9 * scale


def judge(o, e):
    if o["build"]:
        return "circuit-cannot-be-built"
    # pure gradients are only defined for all-pure circuits
    if e["pure"]:
        if o["pure_exc"] == "NotImplementedError":
            pass
        elif o["pure_exc"]:
            return "pure-gradient-raised"
        else:
            if not e["depends"] and o["pure_terms"] != 0:
                return "gradient-of-independent-diagram-is-not-the-empty-sum"
            if not cmp(e["pg"]["A"], e["pg"]["B"], o["pure"]):
                return "pure-gradient-is-not-the-derivative-of-the-amplitudes"
    if o["mixed_exc"] == "NotImplementedError":
        return "ok"
    if o["mixed_exc"]:
        return "mixed-gradient-raised"
    if not e["depends"] and o["mixed_terms"] != 0:
        return "gradient-of-independent-diagram-is-not-the-empty-sum"
    if not cmp(e["mg"]["A"], e["mg"]["B"], o["mixed"]):
        return "mixed-gradient-is-not-the-derivative-of-the-classical-quantum-map"
    # jacobians stack the gradients in the order of the variables
    if e["pure"] and not o["pure_exc"] and not o["jac1p_exc"]:
        if not cmp(e["pg"]["A"], e["pg"]["B"], o["jac1p"] or None):
            return "jacobian-over-one-variable-is-not-the-pure-gradient"
    if not o["jac1m_exc"]:
        if not cmp(e["mg"]["A"], e["mg"]["B"], o["jac1m"] or None):
            return "jacobian-over-one-variable-is-not-the-gradient"
    if not o["jac2m_exc"] and o["jac2m"] is not None:
        rows = 4 ** e["ndom"]
        def val(g):
            return [core.ring_to_complex(a) + math.pi * core.ring_to_complex(b) for a, b in zip(g["A"], g["B"])]
        gx, gy = val(e["mgx"]), val(e["mgy"])
        cols = len(gx) // rows
        want = []
        for r in range(rows):
            want += gx[r * cols:(r + 1) * cols] + gy[r * cols:(r + 1) * cols]
        got = o["jac2m"]
        if got == []:
            got = [0.0] * len(want)
        scale = max([abs(w) for w in want] + [1.0])
        if len(got) != len(want) or max([abs(a - b) for a, b in zip(got, want)] + [0.0]) > 1e-9 * scale:
            return "jacobian-does-not-stack-the-gradients-in-the-order-of-the-variables"
    return "ok"


def run(tier, seed, t0):
    c = CONST[tier]
    rnd = core.rng(seed, "C15")
    with core.workdir("C15") as work:
        consts = {"MaxQ": 0, "MaxLayers": 0, "Phases": "<- PhasesQ", "MaxWeight": 0, "MaxMLayers": 0,
                  "PMaxLayers": c["PMaxLayers"], "PMaxSteps": 0}
        shift = core.run_model("MC_Grad", work, spec="PSpec", constants=dict(consts, PMaxLayers=0),
                               invariants=["InvParamShift"], tag="_shift")
        model = core.run_model("MC_Grad", work, spec="PSpec", constants=consts, dump=True, timeout=3000)
        pcs = [st["pc"] for st in tlaval.read_dump(model["dump"]) if st["pc"]["layers"] and
               any(l["g"]["par"] for l in st["pc"]["layers"])]
        os.remove(model["dump"])
        n_all = len(pcs)
        sample = pcs if len(pcs) <= c["replay"] else rnd.sample(pcs, c["replay"])
        items = [(pc, rnd.choice(["x", "y"]), rnd.choice(POINTS), k % 3 == 0) for k, pc in enumerate(sample)]
        fam = sqrt_family()
        items += [(pc, v, pt, k % 4 == 0) for k, (pc, v, pt) in enumerate(fam if tier != "quick" else fam[::3])]
        with mp.get_context("fork").Pool(16) as pool:
            obs = pool.map(observe, items, chunksize=2)
        rows = [{"pc": pc, "v": v, "pt": pt} for pc, v, pt, _ in items]
        tf = os.path.join(work, "trace.ndjson")
        core.write_ndjson(tf, rows)
        exp = core.validate("Trace_Grad", "Out", tf, work, constants=VC(), timeout=3000)["rows"]
        rejected, clauses = [], Counter()
        refusals = 0
        for t, o, e in zip(rows, obs, exp):
            clause = judge(o, e)
            refusals += (o["pure_exc"] == "NotImplementedError") + (o["mixed_exc"] == "NotImplementedError")
            clauses[clause] += 1
            if clause != "ok":
                both = clause.startswith("jacobian-does-not-stack")
                kinds = sorted(set(l["g"]["k"] for l in t["pc"]["layers"] if l["g"]["par"] and
                                   ((l["g"]["pf"]["cx"] or l["g"]["pf"]["cy"]) if both else
                                    (l["g"]["pf"]["cx"] if t["v"] == "x" else l["g"]["pf"]["cy"]))))
                rejected.append({"clause": clause, "sig": "depends-through=%s | d/d%s at %s of %s forms=%s exc=%s" % (
                    ",".join(kinds), t["v"], t["pt"], qadapt.describe_mixed(t["pc"]),
                    [[l["g"]["pf"]["c0"], l["g"]["pf"]["cx"], l["g"]["pf"]["cy"]] for l in t["pc"]["layers"] if l["g"]["par"]],
                    o["pure_exc"] or o["mixed_exc"] or "-"), "obs": t})
        # canary: a gradient off by a factor must be rejected
        k = next(i for i, (o, e) in enumerate(zip(obs, exp)) if judge(o, e) == "ok" and o["mixed"] and
                 max(abs(v) for v in o["mixed"]) > 0.2)
        bad = dict(obs[k], mixed=[v * 2 for v in obs[k]["mixed"]])
        if judge(bad, exp[k]) == "ok":
            raise core.Machinery("canary accepted")
        cov = {"states": model["distinct"] + shift["distinct"], "transitions": model["generated"] + shift["generated"],
               "traces_validated_against_impl": clauses["ok"],
               "samples": [{"circuit": qadapt.describe_mixed(t["pc"]), "symbol": t["v"], "point_eighths": t["pt"],
                            "depends": e["depends"], "pure": e["pure"]} for t, e in list(zip(rows, exp))[:3]],
               "exhaustive": False,
               "model": {"module": "MC_Grad", "PMaxLayers": c["PMaxLayers"], "InvParamShift": "3 rotation kinds x 16 grid phases"},
               "replay": {"parametrised_circuits_in_model": n_all, "gradient_cases": len(rows),
                          "refusals_NotImplementedError": refusals,
                          "pure_gradients_compared": sum(1 for o, e in zip(obs, exp) if e["pure"] and not o["pure_exc"]),
                          "mixed_gradients_compared": sum(1 for o in obs if not o["mixed_exc"] and not o["build"]),
                          "jacobians_compared": sum(1 for o in obs for n in ("jac1p", "jac1m", "jac2m") if not o[n + "_exc"])},
               "verdicts_by_clause": dict(clauses),
               "canary": {"corrupted": "a mixed gradient multiplied by 2", "rejected_with": "deviation above tolerance"}}
        return core.finish("C15", tier, seed, LEVEL, cov, rejected, t0, ASSUME)


def replay(path):
    with open(path) as f:
        t = json.load(f)["observation"]
    with core.workdir("C15-replay") as work:
        tf = os.path.join(work, "one.ndjson")
        core.write_ndjson(tf, [t])
        e = core.validate("Trace_Grad", "Out", tf, work, constants=VC())["rows"][0]
        clause = judge(observe((t["pc"], t["v"], t["pt"], True)), e)
        print("replayed: %s" % clause)
        if clause != "ok":
            print("VIOLATION property=C15 replay=%s clause=%s" % (path, clause))
            return 1
    return 0
