"""C15 - diagrammatic gradients evaluate to the gradient of the evaluation."""
import glob
import json
import math
import multiprocessing as mp
import os
from collections import Counter

from harness import core, tlaval, qadapt
from harness.checks import c14

LEVEL = "model_checking"
ASSUME = ["phases are affine forms over two symbols; the exact derivative A + pi B of the evaluation at grid points is "
          "computed by TLC (Grad.tla: multilinearity in the boxes, d/dphase of a rotation = pi * rotation by an extra "
          "half turn, product rule for the doubled map, d|s|^2 for amplitude scalars); TLC also proves the parameter-"
          "shift identity exactly at all 16 grid phases",
          "the formal sum returned by grad is evaluated symbolically by the library; the harness substitutes the point "
          "entry by entry with sympy (DisCoPy's own subs/lambdify are C14's subject)",
          "grad raising NotImplementedError (parameter shift of multi-qubit rotations) is a refusal: no formal sum is "
          "returned, nothing is claimed; the evidence counts refusals",
          "square-root scalars (gates.Sqrt) are covered by a family of circuits evaluated where the value under the root is a power of two", "jacobians over one variable (pure and default mode) and over both variables (default mode) are compared with the stacked exact derivatives; tensor diagrams with symbolic boxes and bubbles are not covered by this check yet"]
CONST = {"quick": {"PMaxLayers": 2, "replay": 150}, "thorough": {"PMaxLayers": 3, "replay": 1000}}
POINTS = [[1, 3], [2, 5], [0, 4], [7, 2]]


def sqrt_family():
    """circuits that depend on a symbol through a square-root scalar (gates.Sqrt), at points where the value under the
    root is a power of two (so that the root and its derivative lie in the exact ring); (circuit, symbol, point)"""
    from harness.checks.c13 import _mg

    def P(k, c0, cx, cy, **kw):
        return dict(_mg(k, **kw), par=1, pf={"c0": c0, "cx": cx, "cy": cy})
    out = []
    roots = [(P("sqrt", 0, 2, 0), "x", [[1, 3], [2, 5], [4, 1]]),        # sqrt(2x): 1/2, 1/sqrt2, 1
             (P("sqrt", 1, 0, 1), "y", [[2, 1], [5, 3], [0, 7]]),        # sqrt(y + 1/8)
             (P("sqrt", 0, 1, 1), "x", [[1, 1], [3, 1], [1, 7]])]        # sqrt(x + y)
    rots = [[], [P("Rx", 0, 0, 1)], [P("Rz", 1, 1, 0), _mg("H")], [P("Ry", 0, 1, 1)]]
    for root, v, pts in roots:
        for tail in rots:
            for pt in pts:
                layers = [{"g": root, "off": 0}] + [{"g": g, "off": 0} for g in tail]
                out.append(({"ty": ["q"], "layers": layers}, v, pt))
                out.append(({"ty": ["q"], "layers": layers[1:] + layers[:1]}, v, pt))
    return out


def equal_boxes_family():
    """the same parametrised box twice in one circuit (on two wires, or on one wire separated by a gate that does not
    commute with it): the product rule has one term per occurrence"""
    from harness.checks.c13 import _mg

    def P(k, c0, cx, cy):
        return dict(_mg(k), par=1, pf={"c0": c0, "cx": cx, "cy": cy})
    out = []
    for k in ("Rx", "Ry", "Rz"):
        for f in ((0, 1, 0), (1, 1, 1)):
            g = P(k, *f)
            out.append(({"ty": ["q", "q"], "layers": [{"g": g, "off": 0}, {"g": g, "off": 1}]}, "x", [1, 3]))
            out.append(({"ty": ["q"], "layers": [{"g": g, "off": 0}, {"g": _mg("H"), "off": 0}, {"g": g, "off": 0}]}, "x", [2, 5]))
            out.append(({"ty": ["q", "q"], "layers": [{"g": g, "off": 0}, {"g": g, "off": 1}, {"g": _mg("CX"), "off": 0}]}, "x", [7, 2]))
    return out


def VC():
    return {"MaxQ": 0, "MaxLayers": 0, "Phases": "<- PhasesQ", "MaxWeight": 0, "MaxMLayers": 0, "PMaxLayers": 0, "PMaxSteps": 0}


def eval_at(g, point, mixed):
    """evaluate the formal sum symbolically and substitute the point with sympy"""
    import numpy as np
    import sympy
    x, y = c14.syms()
    val = g.eval(mixed=True) if mixed else g.eval()
    if isinstance(val, int) and val == 0:
        return None          # the empty sum
    out = []
    for v in np.asarray(val.array).flatten():
        v = sympy.sympify(v).subs([(x, sympy.Rational(point[0], 8)), (y, sympy.Rational(point[1], 8))])
        out.append(complex(sympy.N(v, 30)))
    return out


def observe(args):
    pc, v, pt, with_jac = args
    x, y = c14.syms()
    S = {"x": x, "y": y}
    rec = {"jac1p": None, "jac1p_exc": "", "jac1m": None, "jac1m_exc": "", "jac2m": None, "jac2m_exc": "", "build": "", "pure": None, "pure_exc": "", "pure_terms": -1, "mixed": None, "mixed_exc": "", "mixed_terms": -1}
    try:
        d = c14.real_circuit(pc)
    except Exception as e:
        rec["build"] = type(e).__name__
        return rec
    # jacobians: over one variable (pure and default mode) and over both variables (default mode)
    for name, variables, kw in (("jac1p", [S[v]], {"mixed": False}), ("jac1m", [S[v]], {}), ("jac2m", [x, y], {})):
        if not with_jac:
            rec[name + "_exc"] = "skipped"
            continue
        try:
            J = d.jacobian(variables, **kw)
            rec[name] = eval_at(J, pt, name != "jac1p")
            if rec[name] is None:
                rec[name] = []
        except NotImplementedError:
            rec[name + "_exc"] = "NotImplementedError"
        except Exception as e:
            rec[name + "_exc"] = type(e).__name__
    for mode, kw in (("pure", {"mixed": False}), ("mixed", {})):
        try:
            g = d.grad(S[v], **kw)
            rec[mode + "_terms"] = len(g.terms)
            rec[mode] = eval_at(g, pt, mode == "mixed")
            if not g.terms:
                # the empty sum depends on nothing: its own gradient is the empty sum again (second derivatives)
                g2 = g.grad(S[v], **kw)
                rec[mode + "_again"] = len(g2.terms) if hasattr(g2, "terms") else -2
        except NotImplementedError:
            rec[mode + "_exc"] = "NotImplementedError"
        except Exception as e:
            rec[mode + "_exc"] = type(e).__name__
    return rec


def cmp(A, B, got):
    ys = [core.ring_to_complex(a) + math.pi * core.ring_to_complex(b) for a, b in zip(A, B)]
    if got is None:
        return all(abs(yv) <= 1e-9 for yv in ys)
    if len(ys) != len(got):
        return False
    scale = max([abs(yv) for yv in ys] + [1.0])
    return max([abs(a - b) for a, b in zip(got, ys)] + [0.0]) <= 1e-9 * scale


def judge(o, e):
    if o["build"]:
        return "circuit-cannot-be-built"
    # pure gradients are only defined for all-pure circuits
    if e["pure"]:
        if o["pure_exc"] == "NotImplementedError":
            pass
        elif o["pure_exc"]:
            return "pure-gradient-raised"
        else:
            if not e["depends"] and o["pure_terms"] != 0:
                return "gradient-of-independent-diagram-is-not-the-empty-sum"
            if not cmp(e["pg"]["A"], e["pg"]["B"], o["pure"]):
                return "pure-gradient-is-not-the-derivative-of-the-amplitudes"
    if o["mixed_exc"] == "NotImplementedError":
        return "ok"
    if o["mixed_exc"]:
        return "mixed-gradient-raised"
    if not e["depends"] and o["mixed_terms"] != 0:
        return "gradient-of-independent-diagram-is-not-the-empty-sum"
    if o.get("mixed_again", 0) != 0 or o.get("pure_again", 0) != 0:
        return "gradient-of-the-empty-sum-is-not-the-empty-sum"
    if not cmp(e["mg"]["A"], e["mg"]["B"], o["mixed"]):
        return "mixed-gradient-is-not-the-derivative-of-the-classical-quantum-map"
    # jacobians stack the gradients in the order of the variables
    if e["pure"] and not o["pure_exc"] and not o["jac1p_exc"]:
        if not cmp(e["pg"]["A"], e["pg"]["B"], o["jac1p"] or None):
            return "jacobian-over-one-variable-is-not-the-pure-gradient"
    if not o["jac1m_exc"]:
        if not cmp(e["mg"]["A"], e["mg"]["B"], o["jac1m"] or None):
            return "jacobian-over-one-variable-is-not-the-gradient"
    if not o["jac2m_exc"] and o["jac2m"] is not None:
        rows = 4 ** e["ndom"]
        def val(g):
            return [core.ring_to_complex(a) + math.pi * core.ring_to_complex(b) for a, b in zip(g["A"], g["B"])]
        gx, gy = val(e["mgx"]), val(e["mgy"])
        cols = len(gx) // rows
        want = []
        for r in range(rows):
            want += gx[r * cols:(r + 1) * cols] + gy[r * cols:(r + 1) * cols]
        got = o["jac2m"]
        if got == []:
            got = [0.0] * len(want)
        scale = max([abs(w) for w in want] + [1.0])
        if len(got) != len(want) or max([abs(a - b) for a, b in zip(got, want)] + [0.0]) > 1e-9 * scale:
            return "jacobian-does-not-stack-the-gradients-in-the-order-of-the-variables"
    return "ok"


# ---------------------------------------------------------------- tensor diagrams with symbolic boxes and bubbles
TFN = {"sq": lambda v: v ** 2, "cubeplus": lambda v: v ** 3 + v, "oneminus": lambda v: 1 - v}
TENTS = c14.TFORMS + [{"c0": 2, "cx": 0, "cy": 0}, {"c0": -3, "cx": 0, "cy": 1}]


def random_tree(rnd, depth, wide=False):
    """expression tree over 2x2 boxes on one wire: then / bubble (single-wire) / at the top, optionally, tensor"""
    if wide:
        return {"op": rnd.choice(["tensor", "plus"]), "l": random_tree(rnd, depth - 1), "r": random_tree(rnd, depth - 1)}
    r = rnd.random()
    if depth <= 0 or r < 0.3:
        const = rnd.random() < 0.25
        ents = [rnd.choice([e for e in TENTS if not (e["cx"] or e["cy"])] if const else TENTS) for _ in range(4)]
        return {"op": "box", "ents": ents, "dg": int(rnd.random() < 0.3)}
    if r < 0.65:
        return {"op": "then", "l": random_tree(rnd, depth - 1), "r": random_tree(rnd, depth - 1)}
    inner = random_tree(rnd, depth - 1)
    fn = rnd.choice(["sq", "oneminus"] if _has_bubble(inner) else ["sq", "cubeplus", "oneminus"])   # keep TLC's integers small
    return {"op": "bubble", "fn": fn, "l": inner}


class TooBig(Exception):
    pass


def tree_fits(tree, pt):
    """Generator-side guard only (TLC's integers are 32-bit): run the same recursion as Trace_GradT!EvD on exact
    fractions and refuse trees in which some product's numerator would leave 30 bits."""
    from fractions import Fraction as Fr

    def chk(z):
        if abs(z.numerator) >= 2 ** 23 or z.denominator >= 2 ** 23:
            raise TooBig
        return z

    def mul(a, b):
        if abs(a.numerator * b.numerator) >= 2 ** 25 or a.denominator * b.denominator >= 2 ** 25:
            raise TooBig
        return chk(a * b)

    def plus(a, b):
        d = max(a.denominator, b.denominator)
        if abs(a.numerator) * (d // a.denominator) >= 2 ** 24 or abs(b.numerator) * (d // b.denominator) >= 2 ** 24:
            raise TooBig
        return chk(a + b)

    def matmul(A, B):
        n = len(B)
        m = len(B[0])
        out = []
        for i in range(len(A)):
            row = []
            for j in range(m):
                acc = Fr(0)
                for k in range(n):
                    acc = plus(acc, mul(A[i][k], B[k][j]))
                row.append(acc)
            out.append(row)
        return out

    def kron(A, B):
        return [[mul(a, b) for a in ra for b in rb] for ra in A for rb in B]

    def add(A, B):
        return [[plus(a, b) for a, b in zip(ra, rb)] for ra, rb in zip(A, B)]

    def ev(n, v):
        if n["op"] == "box":
            e = n["ents"]
            val = [Fr(f["c0"] + f["cx"] * pt[0] + f["cy"] * pt[1], 8) for f in e]
            der = [Fr(f["cx"] if v == "x" else f["cy"]) for f in e]
            if n.get("dg"):
                val, der = [val[0], val[2], val[1], val[3]], [der[0], der[2], der[1], der[3]]
            return [val[:2], val[2:]], [der[:2], der[2:]]
        if n["op"] == "plus":
            (a, da), (b, db) = ev(n["l"], v), ev(n["r"], v)
            return add(a, b), add(da, db)
        if n["op"] in ("then", "tensor"):
            (a, da), (b, db) = ev(n["l"], v), ev(n["r"], v)
            op = matmul if n["op"] == "then" else kron
            return op(a, b), add(op(da, b), op(a, db))
        a, da = ev(n["l"], v)
        f = {"sq": lambda z: mul(z, z), "cubeplus": lambda z: plus(mul(z, mul(z, z)), z), "oneminus": lambda z: plus(Fr(1), -z)}[n["fn"]]
        df = {"sq": lambda z: mul(Fr(2), z), "cubeplus": lambda z: plus(mul(Fr(3), mul(z, z)), Fr(1)), "oneminus": lambda z: Fr(-1)}[n["fn"]]
        return [[f(z) for z in r] for r in a], [[mul(df(z), dz) for z, dz in zip(r, dr)] for r, dr in zip(a, da)]
    try:
        ev(tree, "x")
        ev(tree, "y")
        return True
    except TooBig:
        return False


def _has_bubble(n):
    return n["op"] == "bubble" or any(_has_bubble(n[k]) for k in ("l", "r") if k in n)


def describe_tree(n):
    if n["op"] == "box":
        return "[%s]%s" % (" ".join("%d%+dx%+dy" % (e["c0"], e["cx"], e["cy"]) for e in n["ents"]), "+" if n.get("dg") else "")
    if n["op"] == "bubble":
        return "%s(%s)" % (n["fn"], describe_tree(n["l"]))
    return "(%s %s %s)" % (describe_tree(n["l"]), {"then": ">>", "tensor": "@", "plus": "+"}[n["op"]], describe_tree(n["r"]))


def rsyms():
    """real symbols: the adjoint of a box conjugates its entries, and the derivative of conjugate(x) only is a number
    when x is known to be real"""
    import sympy
    return sympy.Symbol("x", real=True), sympy.Symbol("y", real=True)


def rexpr(f):
    import sympy
    x, y = rsyms()
    return sympy.Rational(f["c0"], 8) + f["cx"] * x + f["cy"] * y


def build_tree(n, counter):
    from discopy import tensor
    from discopy.tensor import Dim
    if n["op"] == "box":
        counter[0] += 1
        box = tensor.Box("f%d" % counter[0], Dim(2), Dim(2), [rexpr(e) for e in n["ents"]])
        return box.dagger() if n.get("dg") else box
    if n["op"] == "plus":
        return build_tree(n["l"], counter) + build_tree(n["r"], counter)
    if n["op"] == "then":
        return build_tree(n["l"], counter) >> build_tree(n["r"], counter)
    if n["op"] == "tensor":
        return build_tree(n["l"], counter) @ build_tree(n["r"], counter)
    return build_tree(n["l"], counter).bubble(func=TFN[n["fn"]])


def observe_tree(args):
    tree, v, pt = args
    import numpy as np
    import sympy
    x, y = rsyms()
    S = {"x": x, "y": y}
    at = [(x, sympy.Rational(pt[0], 8)), (y, sympy.Rational(pt[1], 8))]

    def entries(T):
        if isinstance(T, (int, float)) and T == 0:
            return []                              # the empty sum evaluates to the number 0
        return [complex(sympy.N(sympy.sympify(e).subs(at), 30)) for e in np.asarray(T.array).flatten()]
    rec = {"build": "", "fs": [], "terms": -1, "grad": None, "grad_exc": "", "val": None, "val_exc": "", "jac": None, "jac_exc": "",
           "gsub": None, "gsub_exc": "", "g2": None, "g2_exc": ""}
    try:
        d = build_tree(tree, [0])
        rec["fs"] = sorted(str(s) for s in d.free_symbols)
    except Exception as e:
        rec["build"] = type(e).__name__
        return rec
    try:
        rec["val"] = entries(d.eval())
    except Exception as e:
        rec["val_exc"] = type(e).__name__
    try:
        g = d.grad(S[v])
        rec["terms"] = len(g.terms) if hasattr(g, "terms") else -2
        rec["grad"] = entries(g.eval())
        # the gradient is a diagram like any other: substituting the point into it and then evaluating it must give
        # the same numbers (no symbol is left, so nothing is substituted after the evaluation)
        try:
            T = g.subs(at).eval()
            rec["gsub"] = [] if isinstance(T, (int, float)) and T == 0 else \
                [complex(sympy.N(sympy.sympify(e), 30)) for e in np.asarray(T.array).flatten()]
        except Exception as e:
            rec["gsub_exc"] = type(e).__name__
    except Exception as e:
        rec["grad_exc"] = type(e).__name__
    try:
        rec["jac"] = entries(d.jacobian([x, y]).eval())
    except Exception as e:
        rec["jac_exc"] = type(e).__name__
    return rec


def tcmp(exp, got, zero_ok=True):
    ys = [core.ring_to_complex(p) for p in exp]
    if got == [] and zero_ok:
        got = [0.0] * len(ys)
    if got is None or len(ys) != len(got):
        return False
    scale = max([abs(v) for v in ys] + [1.0])
    return max([abs(a - b) for a, b in zip(got, ys)] + [0.0]) <= 1e-9 * scale


def judge_tree(o, e, v):
    if o["build"]:
        return "diagram-cannot-be-built"
    if o["grad_exc"]:
        return "gradient-raised"
    if not e["depends"] and o["terms"] != 0:
        return "gradient-of-independent-diagram-is-not-the-empty-sum"
    if not tcmp(e["dx"] if v == "x" else e["dy"], o["grad"]):
        return "gradient-does-not-evaluate-to-the-derivative-of-the-evaluation"
    if o["gsub_exc"]:
        return "substituting-the-point-into-the-gradient-raised"
    if not tcmp(e["dx"] if v == "x" else e["dy"], o["gsub"]):
        return "gradient-with-the-point-substituted-does-not-evaluate-to-the-derivative"
    if e.get("plus"):
        return "ok"                 # (jacobian is a method of diagrams, not of formal sums)
    if o["jac_exc"]:
        return "jacobian-raised"
    rows, cols = e["rows"], e["cols"]
    want = []
    for r in range(rows):
        want += e["dx"][r * cols:(r + 1) * cols] + e["dy"][r * cols:(r + 1) * cols]
    if not tcmp(want, o["jac"]):
        return "jacobian-does-not-stack-the-gradients-in-the-order-of-the-variables"
    return "ok"


def tensor_leg(work, rnd, n, rejected, clauses):
    items = []
    k = 0
    while len(items) < n:
        k += 1
        tree, pt = random_tree(rnd, 2 if k % 3 else 3, wide=(k % 7 == 3)), rnd.choice(POINTS)
        if tree_fits(tree, pt):
            items.append((tree, rnd.choice(["x", "y"]), pt))
    with mp.get_context("fork").Pool(16) as pool:
        obs = pool.map(observe_tree, items, chunksize=4)
    tf = os.path.join(work, "tensor-grad.ndjson")
    core.write_ndjson(tf, [{"e": t, "v": v, "pt": pt} for t, v, pt in items])
    exp = core.validate("Trace_GradT", "OutG", tf, work, constants=VC(), timeout=3000)["rows"]
    ok = drift = 0
    for (tree, v, pt), o, e in zip(items, obs, exp):
        clause = judge_tree(o, e, v)
        if not o["build"] and not o["val_exc"] and not tcmp(e["val"], o["val"], zero_ok=False):
            drift += 1          # the evaluation itself is C09's / C14's subject: reported, not judged here
        clauses["tensor:" + clause] += 1
        ok += clause == "ok"
        if clause != "ok":
            rejected.append({"clause": clause, "sig": "tensor-diagram bubbles=%d %s d/d%s at %s exc=%s" % (
                int(_has_bubble(tree)), describe_tree(tree), v, pt, o["grad_exc"] or o["jac_exc"] or "-"),
                "obs": {"tensor_tree": tree, "v": v, "pt": pt}})
    if drift:
        print("MODEL-DRIFT: C15 tensor leg: %d evaluations of the undifferentiated diagram differ from Trace_GradT's value" % drift)
    # canary
    # (the candidate is judged with its substituted route set to its evaluated route, so that a tree-wide failure of one
    #  route is reported as violations and not as a missing canary)
    same = lambda o: dict(o, gsub=o["grad"], gsub_exc="")
    k = next((i for i, (o, e) in enumerate(zip(obs, exp)) if o["grad"] and judge_tree(same(o), e, items[i][1]) == "ok" and
              max(abs(z) for z in o["grad"]) > 0.2), None)
    if k is None:
        if rejected:
            return {"cases": len(items), "ok": ok, "canary": "no accepted gradient to corrupt (violations reported)"}
        raise core.Machinery("no candidate for the tensor-gradient canary")
    bad = dict(obs[k], grad=[z * 2 for z in obs[k]["grad"]], gsub=obs[k]["grad"], gsub_exc="")
    if judge_tree(bad, exp[k], items[k][1]) == "ok":
        raise core.Machinery("tensor-gradient canary accepted")
    return {"cases": len(items), "ok": ok, "with_bubbles": sum(1 for t, _, _ in items if _has_bubble(t)),
            "independent_of_the_symbol": sum(1 for e in exp if not e["depends"]), "value_cross_check_mismatches": drift}


def run(tier, seed, t0):
    c = CONST[tier]
    rnd = core.rng(seed, "C15")
    with core.workdir("C15") as work:
        consts = {"MaxQ": 0, "MaxLayers": 0, "Phases": "<- PhasesQ", "MaxWeight": 0, "MaxMLayers": 0,
                  "PMaxLayers": c["PMaxLayers"], "PMaxSteps": 0}
        shift = core.run_model("MC_Grad", work, spec="PSpec", constants=dict(consts, PMaxLayers=0),
                               invariants=["InvParamShift"], tag="_shift")
        model = core.run_model("MC_Grad", work, spec="PSpec", constants=consts, dump=True, timeout=3000)
        pcs = [st["pc"] for st in tlaval.read_dump(model["dump"]) if st["pc"]["layers"] and
               any(l["g"]["par"] for l in st["pc"]["layers"])]
        os.remove(model["dump"])
        n_all = len(pcs)
        sample = pcs if len(pcs) <= c["replay"] else rnd.sample(pcs, c["replay"])
        items = [(pc, rnd.choice(["x", "y"]), rnd.choice(POINTS), k % 3 == 0) for k, pc in enumerate(sample)]
        fam = sqrt_family()
        items += [(pc, v, pt, k % 4 == 0) for k, (pc, v, pt) in enumerate(fam if tier != "quick" else fam[::3])]
        items += [(pc, v, pt, k % 3 == 0) for k, (pc, v, pt) in enumerate(equal_boxes_family())]
        with mp.get_context("fork").Pool(16) as pool:
            obs = pool.map(observe, items, chunksize=2)
        rows = [{"pc": pc, "v": v, "pt": pt} for pc, v, pt, _ in items]
        tf = os.path.join(work, "trace.ndjson")
        core.write_ndjson(tf, rows)
        exp = core.validate("Trace_Grad", "Out", tf, work, constants=VC(), timeout=3000)["rows"]
        rejected, clauses = core.track([]), Counter()
        refusals = 0
        for t, o, e in zip(rows, obs, exp):
            clause = judge(o, e)
            refusals += (o["pure_exc"] == "NotImplementedError") + (o["mixed_exc"] == "NotImplementedError")
            clauses[clause] += 1
            if clause != "ok":
                both = clause.startswith("jacobian-does-not-stack")
                kinds = sorted(set(l["g"]["k"] for l in t["pc"]["layers"] if l["g"]["par"] and
                                   ((l["g"]["pf"]["cx"] or l["g"]["pf"]["cy"]) if both else
                                    (l["g"]["pf"]["cx"] if t["v"] == "x" else l["g"]["pf"]["cy"]))))
                rejected.append({"clause": clause, "sig": "depends-through=%s | d/d%s at %s of %s forms=%s exc=%s" % (
                    ",".join(kinds), t["v"], t["pt"], qadapt.describe_mixed(t["pc"]),
                    [[l["g"]["pf"]["c0"], l["g"]["pf"]["cx"], l["g"]["pf"]["cy"]] for l in t["pc"]["layers"] if l["g"]["par"]],
                    o["pure_exc"] or o["mixed_exc"] or "-"), "obs": t})
        tinfo = tensor_leg(work, rnd, 150 if tier == "quick" else 1500, rejected, clauses)
        # canary: a gradient off by a factor must be rejected
        k = next(i for i, (o, e) in enumerate(zip(obs, exp)) if judge(o, e) == "ok" and o["mixed"] and
                 max(abs(v) for v in o["mixed"]) > 0.2)
        bad = dict(obs[k], mixed=[v * 2 for v in obs[k]["mixed"]])
        if judge(bad, exp[k]) == "ok":
            raise core.Machinery("canary accepted")
        cov = {"states": model["distinct"] + shift["distinct"], "transitions": model["generated"] + shift["generated"],
               "traces_validated_against_impl": clauses["ok"],
               "samples": [{"circuit": qadapt.describe_mixed(t["pc"]), "symbol": t["v"], "point_eighths": t["pt"],
                            "depends": e["depends"], "pure": e["pure"]} for t, e in list(zip(rows, exp))[:3]],
               "exhaustive": False,
               "model": {"module": "MC_Grad", "PMaxLayers": c["PMaxLayers"], "InvParamShift": "3 rotation kinds x 16 grid phases"},
               "replay": {"parametrised_circuits_in_model": n_all, "gradient_cases": len(rows),
                          "refusals_NotImplementedError": refusals,
                          "pure_gradients_compared": sum(1 for o, e in zip(obs, exp) if e["pure"] and not o["pure_exc"]),
                          "mixed_gradients_compared": sum(1 for o in obs if not o["mixed_exc"] and not o["build"]),
                          "jacobians_compared": sum(1 for o in obs for n in ("jac1p", "jac1m", "jac2m") if not o[n + "_exc"])},
               "tensor_diagrams": tinfo,
               "verdicts_by_clause": dict(clauses),
               "canary": {"corrupted": "a mixed gradient multiplied by 2", "rejected_with": "deviation above tolerance"}}
        return core.finish("C15", tier, seed, LEVEL, cov, rejected, t0, ASSUME)


def replay(path):
    with open(path) as f:
        t = json.load(f)["observation"]
    with core.workdir("C15-replay") as work:
        tf = os.path.join(work, "one.ndjson")
        if "tensor_tree" in t:
            core.write_ndjson(tf, [{"e": t["tensor_tree"], "v": t["v"], "pt": t["pt"]}])
            e = core.validate("Trace_GradT", "OutG", tf, work, constants=VC())["rows"][0]
            clause = judge_tree(observe_tree((t["tensor_tree"], t["v"], t["pt"])), e, t["v"])
            print("replayed %s: %s" % (describe_tree(t["tensor_tree"]), clause))
            if clause != "ok":
                print("VIOLATION property=C15 replay=%s clause=%s" % (path, clause))
                return 1
            return 0
        core.write_ndjson(tf, [t])
        e = core.validate("Trace_Grad", "Out", tf, work, constants=VC())["rows"][0]
        clause = judge(observe((t["pc"], t["v"], t["pt"], True)), e)
        print("replayed: %s" % clause)
        if clause != "ok":
            print("VIOLATION property=C15 replay=%s clause=%s" % (path, clause))
            return 1
    return 0
