"""C09 - evaluating a diagram computes its compositional meaning."""
import json
import multiprocessing as mp
import os
from collections import Counter

from harness import core, tlaval

LEVEL = "model_checking"
ASSUME = ["interpretations: one dimension in {1, 2, 3} per atom name (winding ignored), given as int or Dim, as "
          "dict or callable; one generic non-symmetric Gaussian-integer array per box name (same formula in "
          "Eval!Gen and in the adapter); comparison exact, inside TLC",
          "the meaning of swaps, cups, caps and daggered boxes is the defining tensor of Mat.tla",
          "TLC proves on all rigid diagrams in bounds that admissible interchanges and snake yanks preserve the "
          "meaning (this discharges the 'same denotation' clauses of C05, C06, C07 at model level)",
          "spiders (delta tensors, fusion), bubbles (two entrywise functions) and formal sums of parallel diagrams are evaluated through tensor.Diagram.eval for the swap/box diagrams of the model; object images are single dimensions"]
CONST = {"quick": {"inv": (2, 3), "dump": (3, 3), "replay": 450, "MaxCC": 2},
         "thorough": {"inv": (3, 3), "dump": (4, 3), "replay": 3000, "MaxCC": 2}}
INTERPS = {"Dims23": [[2], [3]], "Dims21": [[2], [1]], "Dims32": [[3], [2]],
           # multi-wire object images (an extension of the claim's "dimension per atomic type"): Dim(2, 2) is its own
           # mirror image so cups exist; Dim(2, 3) is replayed on cup-free diagrams only (the library refuses the cup)
           "DimsM22": [[2, 2], [3]], "DimsM23": [[2, 3], [2]]}
MULTI_MAX = 40      # largest flattened layer width replayed under a multi-wire interpretation (TLC multiplies the matrices)


def gen(s, rows, cols):
    import numpy as np
    out = np.zeros((rows, cols), dtype=complex)
    for r in range(rows):
        for c in range(cols):
            out[r, c] = complex(1 + 2 * r + 3 * c + 7 * s + ((r * c + s) % 5), r - 2 * c + s)
    return out


def proj(T):
    import numpy as np
    arr = np.asarray(T.array, dtype=complex).flatten()
    out = []
    for v in arr:
        re, im = round(v.real), round(v.imag)
        if re != v.real or im != v.imag:
            raise core.Machinery("non-integer entry %r" % v)
        out.append([int(re), int(im)])
    return {"dom": [int(x) for x in T.dom], "cod": [int(x) for x in T.cod], "a": out}


EMPTY = {"dom": [], "cod": [], "a": [[1, 0]]}
EMPTY_D = {"dom": [], "cod": [], "boxes": [], "offs": []}


def variant(kind, val, exc="", other=None, n=0, m=0, dim=0):
    return {"kind": kind, "val": val, "exc": exc, "other": other or EMPTY_D, "n": n, "m": m, "dim": dim}


def _work(args):
    states, dims, out, mode = args
    import numpy as np
    from discopy import rigid, tensor
    from discopy.tensor import Dim
    from harness.adapters.free import RigidAdapter
    A = RigidAdapter()
    x, y = rigid.Ty('x'), rigid.Ty('y')
    dimmap = {"x": tuple(dims[0]), "y": tuple(dims[1])}

    def flat(t):
        return [v for a in t for v in dimmap[A.ATOMS[a[0]]]]

    def size(t):
        n = 1
        for v in flat(t):
            n *= v
        return n

    def shape(t):
        return tuple(v for v in flat(t) if v != 1)

    def asdim(v):
        return v[0] if len(v) == 1 else Dim(*v)
    seen_parallel = {}
    with open(out, "w") as f:
        for k, dabs in enumerate(states):
            real = A.build(dabs, k % 2)
            ar = {}
            for b in dabs["boxes"]:
                if b["kind"] == 0:
                    und = dict(b, dom=b["cod"], cod=b["dom"], dg=0) if b["dg"] else b
                    box = A.box(und)
                    ar[box] = gen(b["id"], size(und["dom"]), size(und["cod"])).reshape(shape(und["dom"]) + shape(und["cod"]))
            fvar = (k + mode) % 4
            ob = {x: asdim(dims[0]), y: asdim(dims[1])} if fvar % 2 == 0 else {x: Dim(*dims[0]), y: Dim(*dims[1])}
            if fvar >= 2:
                obd, ard = dict(ob), dict(ar)
                F = tensor.Functor(ob=lambda t: obd[t], ar=lambda b: ard[b])
            else:
                F = tensor.Functor(ob=ob, ar=ar)
            rec = {"d": dabs, "prefixes": [], "pexc": "", "variants": []}
            try:
                for j in range(len(dabs["boxes"]) + 1):
                    rec["prefixes"].append(proj(F(real[:j])))
            except core.Machinery:
                raise
            except Exception as e:
                rec["pexc"] = type(e).__name__
            n = len(dabs["boxes"])
            for i in range(n - 1):
                for left in (False, True):
                    try:
                        other = real.interchange(i, i + 1, left=left)
                    except Exception:
                        continue
                    try:
                        rec["variants"].append(variant("interchange", proj(F(other))))
                    except core.Machinery:
                        raise
                    except Exception as e:
                        rec["variants"].append(variant("interchange", EMPTY, type(e).__name__))
            from harness.machine import time_limit, CallTimeout, CALL_LIMIT
            try:
                with time_limit(CALL_LIMIT):
                    nf = real.normal_form()
            except (Exception, CallTimeout):
                nf = None
            if nf is not None:
                try:
                    rec["variants"].append(variant("normal_form", proj(F(nf))))
                except core.Machinery:
                    raise
                except Exception as e:
                    rec["variants"].append(variant("normal_form", EMPTY, type(e).__name__))
            # rigid transposes (all wires bent round with nested cups and caps); Dim(2, 3) has no cups with itself
            if tuple(dimmap["x"]) == tuple(reversed(dimmap["x"])) and len(dabs["boxes"]) <= 3 and k % 2 == 0:
                for left in (False, True):
                    kind = "transpose_l" if left else "transpose_r"
                    try:
                        rec["variants"].append(variant(kind, proj(F(real.transpose(left=left)))))
                    except core.Machinery:
                        raise
                    except Exception as e:
                        rec["variants"].append(variant(kind, EMPTY, type(e).__name__))
            if all(b["kind"] in (0, 1) for b in dabs["boxes"]) and all(a[1] == 0 for a in dabs["dom"]) and \
                    all(a[1] == 0 for b in dabs["boxes"] for a in b["dom"] + b["cod"]):
                # the same diagram as a tensor.Diagram of tensor boxes, evaluated by .eval()
                try:
                    td = tensor.Id(Dim(*flat(dabs["dom"])))
                    tdi = td            # the same diagram with integer-valued boxes (real parts, int dtype)
                    for b, o in zip(dabs["boxes"], dabs["offs"]):
                        dm = Dim(*flat(b["dom"]))
                        cd = Dim(*flat(b["cod"]))
                        if b["kind"] == 1:
                            tb = tensor.Diagram.swap(Dim(*flat(b["dom"][:1])), Dim(*flat(b["dom"][1:])))
                        elif b["dg"]:
                            tb = tensor.Box("b%d" % b["id"], cd, dm, gen(b["id"], size(b["cod"]), size(b["dom"])).reshape(
                                shape(b["cod"]) + shape(b["dom"]))).dagger()
                        else:
                            tb = tensor.Box("b%d" % b["id"], dm, cd, gen(b["id"], size(b["dom"]), size(b["cod"])).reshape(
                                shape(b["dom"]) + shape(b["cod"])))
                        # offsets count wires of dimension > 1 only (Dim drops 1s)
                        lw = Dim(*flat(_scan_at(dabs, b, o)[0]))
                        rw = Dim(*flat(_scan_at(dabs, b, o)[1]))
                        td = td >> tensor.Id(lw) @ tb @ tensor.Id(rw)
                        if b["kind"] == 1:
                            tbi = tb
                        else:
                            und = (b["cod"], b["dom"]) if b["dg"] else (b["dom"], b["cod"])
                            arr = np.real(gen(b["id"], size(und[0]), size(und[1]))).astype(int).reshape(shape(und[0]) + shape(und[1]))
                            tbi = tensor.Box("i%d" % b["id"], Dim(*flat(und[0])), Dim(*flat(und[1])), arr)
                            tbi = tbi.dagger() if b["dg"] else tbi
                        tdi = tdi >> tensor.Id(lw) @ tbi @ tensor.Id(rw)
                    rec["variants"].append(variant("tensor_eval", proj(td.eval())))
                    biggest = max(abs(a) for e2 in rec["variants"][-1]["val"]["a"] for a in e2)
                    # bubbles: the entrywise image of the inside under the bubble's function
                    if biggest < 20000:   # TLC integers are 32-bit
                        rec["variants"].append(variant("bubble_sq", proj(td.bubble(func=lambda v: v * v).eval())))
                    rec["variants"].append(variant("bubble_1m", proj(td.bubble(func=lambda v: 1 - v).eval())))
                    rec["variants"].append(variant("bubble_i", proj(tdi.bubble(func=lambda v: v * 1j).eval())))
                    if biggest < 20000 and size(dabs["dom"]) * size(dabs["cod"]) <= 16:
                        pair = td.bubble(func=lambda v: 1 - v) @ td.bubble(func=lambda v: v * 1j)
                        rec["variants"].append(variant("bubble_pair", proj(pair.eval())))
                    # formal sums: with a parallel diagram from the model (the previous one of the same type)
                    key = (json.dumps(dabs["dom"]), json.dumps(dabs["cod"]))
                    prev = seen_parallel.get(key)
                    if prev is not None:
                        rec["variants"].append(variant("sum", proj((td + prev[1]).eval()), other=prev[0]))
                        for kind, mk in (("sum_then", lambda s_: s_ >> tensor.Id(td.cod)),
                                         ("sum_tensor", lambda s_: tensor.Id(Dim(2)) @ s_),
                                         ("sum_dagger", lambda s_: s_.dagger())):
                            try:
                                rec["variants"].append(variant(kind, proj(mk(td + prev[1]).eval()), other=prev[0]))
                            except core.Machinery:
                                raise
                            except Exception as e:
                                rec["variants"].append(variant(kind, EMPTY, type(e).__name__, other=prev[0]))
                    seen_parallel[key] = ({k2: dabs[k2] for k2 in ("dom", "cod", "boxes", "offs")}, td)
                except core.Machinery:
                    raise
                except Exception as e:
                    rec["variants"].append(variant("tensor_eval", EMPTY, type(e).__name__))
            if k < 6:
                # spiders by their defining delta tensors, and spider fusion
                for (n, m, dd) in ((1, 2, 2), (2, 1, 3), (0, 2, 2), (2, 0, 3), (1, 1, 2), (2, 2, 2), (0, 0, 3), (3, 1, 2))[k::6] + ((1, 2, dims[0][0] or 2),):
                    if dd < 2:
                        continue
                    try:
                        rec["variants"].append(variant("spider", proj(tensor.Spider(n, m, dd).eval()), n=n, m=m, dim=dd))
                        fused = tensor.Spider(n, 2, dd) >> tensor.Spider(2, m, dd)
                        rec["variants"].append(variant("spider_fusion", proj(fused.eval()), n=n, m=m, dim=dd))
                    except core.Machinery:
                        raise
                    except Exception as e:
                        rec["variants"].append(variant("spider", EMPTY, type(e).__name__, n=n, m=m, dim=dd))
            f.write(json.dumps(rec) + "\n")
    return len(states)


def _scan_at(dabs, box, off):
    """left and right wires (abstract atoms) next to the given box occurrence"""
    scan = list(dabs["dom"])
    for b, o in zip(dabs["boxes"], dabs["offs"]):
        if b is box:
            return scan[:o], scan[o + len(b["dom"]):]
        scan = scan[:o] + b["cod"] + scan[o + len(b["dom"]):]
    raise KeyError


def _widest(d, dims):
    """largest flattened size of a layer boundary of the abstract diagram under the interpretation"""
    def size(t):
        n = 1
        for a in t:
            for v in dims[a[0] - 1]:
                n *= v
        return n
    scan, best = list(d["dom"]), size(d["dom"])
    for b, o in zip(d["boxes"], d["offs"]):
        scan = scan[:o] + b["cod"] + scan[o + len(b["dom"]):]
        best = max(best, size(scan))
    return best


def describe(d):
    def b(x):
        return {1: "Swap", 2: "Cup", 3: "Cap"}.get(x["kind"], "b%d%s" % (x["id"], "+" if x["dg"] else ""))
    return "dom=%s %s" % ([tuple(a) for a in d["dom"]], " ".join("%s@%d" % (b(x), o) for x, o in zip(d["boxes"], d["offs"])))


def run(tier, seed, t0):
    c = CONST[tier]
    with core.workdir("C09") as work:
        models, rows, verdicts = [], [], []
        rnd = core.rng(seed, "C09")
        tot_states = tot_trans = 0
        for mi, (iname, dims) in enumerate(INTERPS.items()):
            if iname == "DimsM23":
                continue        # same theorem as DimsM22; the cup-free half adds nothing at model level
            wmax = 2 if (iname == "DimsM22" and tier == "quick") else c["inv"][1]    # 48x48 products are slow in TLC
            inv = core.run_model("MC_Eval", work, constants={"DimOf": "<- " + iname, "MaxBoxes": c["inv"][0],
                                                              "MaxWidth": wmax, "MaxCC": c["MaxCC"]},
                                 invariants=["InvShape", "InvInterchangeSound", "InvYankSound"], timeout=3000,
                                 tag="_inv%d" % mi)
            tot_states += inv["distinct"]
            tot_trans += inv["generated"]
            models.append({"interp": dims, "states": inv["distinct"], "wall_s": inv["wall_s"]})
            if tier == "quick" and mi > 0:
                pass
        gen_ = core.run_model("MC_Eval", work, constants={"DimOf": "<- Dims23", "MaxBoxes": c["dump"][0],
                                                          "MaxWidth": c["dump"][1], "MaxCC": c["MaxCC"]},
                              dump=True, timeout=3000, tag="_gen")
        states = [st["d"] for st in tlaval.read_dump(gen_["dump"])]
        os.remove(gen_["dump"])
        n_all = len(states)
        for mi, (iname, dims) in enumerate(INTERPS.items()):
            n = c["replay"] if mi == 0 else c["replay"] // 3
            pool_ = states
            if iname.startswith("DimsM"):
                pool_ = [d for d in states if _widest(d, dims) <= MULTI_MAX and
                         (iname == "DimsM22" or all(b["kind"] in (0, 1) for b in d["boxes"]))]
                n = c["replay"] // 6
            sample = pool_ if len(pool_) <= n else rnd.sample(pool_, n)
            procs = 16
            chunks = [(sample[k::procs], dims, os.path.join(work, "obs-%d-%d.ndjson" % (mi, k)), k) for k in range(procs)]
            with mp.get_context("fork").Pool(procs) as pool:
                pool.map(_work, chunks)
            tf = os.path.join(work, "trace-%d.ndjson" % mi)
            with open(tf, "w") as fo:
                for ch in chunks:
                    with open(ch[2]) as f:
                        fo.write(f.read())
            val = core.validate("Trace_Eval", "J09", tf, work, timeout=3000,
                                constants={"DimOf": "<- " + iname, "MaxBoxes": 0, "MaxWidth": 0, "MaxCC": 0})
            part = core.read_ndjson(tf)
            for t in part:
                t["interp"] = dims
            rows += part
            verdicts += val["verdicts"]
        rejected, clauses = core.track([]), Counter()
        for t, v in zip(rows, verdicts):
            clauses[v[0]] += 1
            if v[0] != "ok":
                vk = t["variants"][v[1] - 1]["kind"] if (v[0].startswith(("variant", "sum-", "bubble-", "spider-", "tensor-diagram", "evaluation-not")) and 0 < v[1] <= len(t["variants"])) else "-"
                rejected.append({"clause": v[0], "sig": "at=%s variant=%s dims=%s %s" % (v[1], vk, t["interp"], describe(t["d"])),
                                 "obs": {"d": t["d"], "interp": t["interp"]}})
        can = None
        for t, v in zip(rows, verdicts):
            if v[0] == "ok" and len(t["prefixes"]) >= 3 and len(t["prefixes"][-1]["a"]) >= 4 and t["interp"] == [[2], [3]] \
                    and t["prefixes"][-1]["a"][0] != t["prefixes"][-1]["a"][1]:
                bad = json.loads(json.dumps(t))
                a = bad["prefixes"][-1]["a"]
                a[0], a[1] = a[1], a[0]
                del bad["interp"]
                cf = os.path.join(work, "canary.ndjson")
                core.write_ndjson(cf, [bad])
                got = core.validate("Trace_Eval", "J09", cf, work,
                                    constants={"DimOf": "<- Dims23", "MaxBoxes": 0, "MaxWidth": 0, "MaxCC": 0})["verdicts"][0][0]
                if got == "ok":
                    raise core.Machinery("canary accepted")
                can = {"corrupted": "two entries of the final tensor exchanged", "rejected_with": got}
                break
        if can is None:
            raise core.Machinery("no canary candidate")
        cov = {"states": tot_states + gen_["distinct"], "transitions": tot_trans + gen_["generated"],
               "traces_validated_against_impl": clauses["ok"],
               "samples": [{"diagram": describe(t["d"]), "dims_xy": t["interp"], "prefixes": len(t["prefixes"]),
                            "variants": [v["kind"] for v in t["variants"]],
                            "final_shape": [t["prefixes"][-1]["dom"], t["prefixes"][-1]["cod"]] if t["prefixes"] else None}
                           for t in (rows[0], rows[len(rows) // 2], rows[-1])],
               "exhaustive": False,
               "model": {"module": "MC_Eval", "invariant_runs": models, "inv_bounds": c["inv"], "dump_bounds": c["dump"],
                         "invariants": ["InvShape", "InvInterchangeSound", "InvYankSound"]},
               "replay": {"diagrams_in_model": n_all, "histories": len(rows),
                          "prefix_tensors": sum(len(t["prefixes"]) for t in rows),
                          "variants": dict(Counter(v["kind"] for t in rows for v in t["variants"]))},
               "verdicts_by_clause": dict(clauses), "canary": can}
        return core.finish("C09", tier, seed, LEVEL, cov, rejected, t0, ASSUME)


def replay(path):
    with open(path) as f:
        obs = json.load(f)["observation"]
    iname = [k for k, v in INTERPS.items() if v == obs["interp"]][0]
    with core.workdir("C09-replay") as work:
        out = os.path.join(work, "one.ndjson")
        _work(([obs["d"]], obs["interp"], out, 0))
        v = core.validate("Trace_Eval", "J09", out, work,
                          constants={"DimOf": "<- " + iname, "MaxBoxes": 0, "MaxWidth": 0, "MaxCC": 0})["verdicts"][0]
        print("replayed %s: verdict=%s" % (describe(obs["d"]), v))
        if v[0] != "ok":
            print("VIOLATION property=C09 replay=%s clause=%s" % (path, v[0]))
            return 1
    return 0
