"""C14 - substituting parameters commutes with evaluation."""
import glob
import json
import multiprocessing as mp
import os
from collections import Counter
from fractions import Fraction

from harness import core, tlaval, qadapt

LEVEL = "model_checking"
ASSUME = ["phases and scalar data are affine forms c0 + cx x + cy y over two sympy symbols with integer coefficients "
          "in units of 1/8 (turn); substituted numbers lie on the 1/8 grid and are passed as int, float or "
          "sympy.Rational; TLC computes the substituted forms, the free symbols and, for closed results, the exact "
          "arrays (Gates!Sem / CQ!CQSem)",
          "three routes to a number are compared with TLC's exact value: substitute-then-evaluate, evaluate-then-"
          "substitute (DisCoPy's Tensor.subs and, separately, an entrywise sympy substitution by the harness), and "
          "lambdify; lambdify(...)(...) must also equal the substituted diagram (==)",
          "bounded: parametrised pure/mixed circuits of MC_Param (<= PMaxLayers boxes) and chains of <= 2 steps; ZX "
          "diagrams and tensor diagrams with symbolic box entries are not covered by this check yet"]
CONST = {"quick": {"PMaxLayers": 2, "PMaxSteps": 2, "replay": 500}, "thorough": {"PMaxLayers": 2, "PMaxSteps": 2, "replay": 12000}}


def VC():
    return {"MaxQ": 0, "MaxLayers": 0, "Phases": "<- PhasesQ", "MaxWeight": 0, "MaxMLayers": 0, "PMaxLayers": 0, "PMaxSteps": 0}


def syms():
    import sympy
    return sympy.Symbol("x"), sympy.Symbol("y")


def expr_of(f):
    import sympy
    x, y = syms()
    return sympy.Rational(f["c0"], 8) + f["cx"] * x + f["cy"] * y


def form_of(e):
    """affine coefficients (in eighths) of a sympy expression / number"""
    import sympy
    x, y = syms()
    e = sympy.nsimplify(sympy.expand(sympy.sympify(e)), rational=True)
    cx, cy = e.coeff(x), e.coeff(y)
    c0 = sympy.expand(e - cx * x - cy * y) * 8
    vals = []
    for v in (c0, cx, cy):
        fr = Fraction(str(sympy.nsimplify(v, rational=True)))
        if fr.denominator != 1:
            raise OffGrid(str(e))
        vals.append(int(fr))
    return {"c0": vals[0], "cx": vals[1], "cy": vals[2]}


class OffGrid(Exception):
    pass


def real_box(g):
    from discopy.quantum import Rx, Ry, Rz, CU1, CRz, CRx, scalar
    if not g["par"]:
        return qadapt.mixed_box(g)
    e = expr_of(g["pf"])
    if not e.free_symbols:
        e = float(e)        # a box that does not depend on any symbol is built from a plain number
    rot = {"Rx": Rx, "Ry": Ry, "Rz": Rz, "CU1": CU1, "CRz": CRz, "CRx": CRx}
    if g["k"] in rot:
        out = rot[g["k"]](e)
        return out.dagger() if g["dg"] else out
    if g["k"] == "scalar":
        return scalar(e)
    if g["k"] == "mscalar":
        return scalar(e, is_mixed=True)
    raise ValueError(g["k"])


def real_circuit(pc):
    from discopy.quantum import circuit as C
    from discopy.quantum import qubit, bit
    ty = C.Ty()
    for w in pc["ty"]:
        ty = ty @ (qubit if w == "q" else bit)
    out = C.Id(ty)
    for layer in pc["layers"]:
        box, off = real_box(layer["g"]), layer["off"]
        out = out >> C.Id(out.cod[:off]) @ box @ C.Id(out.cod[off + len(box.dom):])
    return out


def proj_box(b, template):
    """projection of a real box onto the record shape of the abstract box it came from"""
    from discopy.quantum import gates as G
    g = dict(template)
    name = type(b).__name__
    if isinstance(b, G.Rotation):
        g["k"], g["dg"], g["par"], g["pf"] = name, 0, 1, form_of(b.phase)
    elif isinstance(b, G.Scalar):
        g["k"] = "mscalar" if b.is_mixed else "scalar"
        g["par"], g["pf"], g["dg"] = 1, form_of(b.data), 0
    else:
        g["dg"] = int(bool(getattr(b, "_dagger", False))) if name == "QuantumGate" and b.name in ("S", "T", "Y") else g["dg"]
        if name != type(qadapt.mixed_box(template)).__name__:
            g["k"] = name
    return g


def proj_circuit(d, pc):
    if len(d.boxes) != len(pc["layers"]):
        return {"ty": pc["ty"], "layers": []}
    return {"ty": ["q" if o.name == "qubit" else "b" for o in d.dom],
            "layers": [{"g": proj_box(b, l["g"]), "off": int(o)} for b, o, l in zip(d.boxes, d.offsets, pc["layers"])]}


def value(f, how):
    """a number on the 1/8 grid as int / float / sympy.Rational"""
    import sympy
    if how == 0 and f["c0"] % 8 == 0:
        return f["c0"] // 8
    if how == 1:
        return f["c0"] / 8
    return sympy.Rational(f["c0"], 8)


def flat(arr):
    import numpy as np
    return [complex(v) for v in np.asarray(arr).flatten()]


def observe(args):
    k, pc, chain = args
    import sympy
    x, y = syms()
    S = {"x": x, "y": y}
    rec = {"exc": "", "res": {"ty": pc["ty"], "layers": []}, "fs0": [], "fs1": [], "A": None, "A_exc": "", "B": None, "B_exc": "",
           "B2": None, "B2_exc": "", "C": None, "C_exc": "", "lam_eq": None}
    try:
        d = real_circuit(pc)
        rec["fs0"] = sorted(str(s) for s in d.free_symbols)
        res = d
        pairs_all = []
        for si, step in enumerate(chain):
            pairs = []
            for p in step:
                numeric = p["f"]["cx"] == 0 and p["f"]["cy"] == 0
                pairs.append((S[p["v"]], value(p["f"], (k + si) % 3) if numeric else expr_of(p["f"])))
            pairs_all.append(pairs)
            res = res.subs(*pairs[0]) if len(pairs) == 1 and (k + si) % 2 == 0 else res.subs(pairs)
        rec["res"] = proj_circuit(res, pc)
        rec["fs1"] = sorted(str(s) for s in res.free_symbols)
    except OffGrid as e:
        rec["exc"] = "OffGrid"
        return rec
    except Exception as e:
        rec["exc"] = type(e).__name__
        return rec
    if res.free_symbols:
        return rec
    try:
        rec["A"] = flat(res.eval().array)
    except Exception as e:
        rec["A_exc"] = type(e).__name__
    try:
        sym = d.eval()
        t = sym
        for pairs in pairs_all:
            t = t.subs(*pairs[0]) if len(pairs) == 1 else t.subs(pairs)
        rec["B"] = [complex(sympy.N(v)) for v in __import__("numpy").asarray(t.array).flatten()]
    except Exception as e:
        rec["B_exc"] = type(e).__name__
    try:
        sym = d.eval()
        out = []
        for v in __import__("numpy").asarray(sym.array).flatten():
            v = sympy.sympify(v)
            for pairs in pairs_all:
                v = v.subs(pairs)
            out.append(complex(sympy.N(v)))
        rec["B2"] = out
    except Exception as e:
        rec["B2_exc"] = type(e).__name__
    # lambdify: only when one all-numeric step closes the diagram
    if len(chain) == 1 and all(p["f"]["cx"] == 0 and p["f"]["cy"] == 0 for p in chain[0]):
        try:
            order = [p["v"] for p in chain[0]]
            vals = [p["f"]["c0"] / 8 for p in chain[0]]
            lam = d.lambdify(*[S[v] for v in order])(*vals)
            rec["C"] = flat(lam.eval().array)
            rec["lam_eq"] = bool(lam == d.subs([(S[v], val) for v, val in zip(order, vals)]))
        except Exception as e:
            rec["C_exc"] = type(e).__name__
    return rec


def cmp(exp, got):
    ys = [core.ring_to_complex(p) for p in exp]
    if got is None or len(ys) != len(got):
        return False
    scale = max([abs(y) for y in ys] + [1.0])
    return max([abs(a - b) for a, b in zip(got, ys)] + [0.0]) <= 1e-9 * scale


def judge(o, e):
    if e["v"][0] != "ok":
        return e["v"][0]
    if not e["closed"]:
        return "ok"
    want = e["e"] if (e["mixed"] or not e["pure"]) else e["pure"]
    if o["A_exc"]:
        return "closed-diagram-does-not-evaluate-to-numbers"
    if not cmp(want, o["A"]) and not (e["pure"] and cmp(e["e"], o["A"])):
        return "substitute-then-evaluate-differs"
    if o["B2_exc"] or not (cmp(want, o["B2"]) or (e["pure"] and cmp(e["e"], o["B2"]))):
        return "symbolic-evaluation-differs"
    if o["B_exc"] or not (cmp(want, o["B"]) or (e["pure"] and cmp(e["e"], o["B"]))):
        return "evaluate-then-substitute-differs"
    if o["C"] is not None or o["C_exc"]:
        if o["C_exc"] or not (cmp(want, o["C"]) or (e["pure"] and cmp(e["e"], o["C"]))):
            return "lambdify-differs"
        if o["lam_eq"] is False:
            return "lambdified-diagram-is-not-the-substituted-diagram"
    return "ok"


def run(tier, seed, t0):
    c = CONST[tier]
    rnd = core.rng(seed, "C14")
    with core.workdir("C14") as work:
        consts = {"MaxQ": 0, "MaxLayers": 0, "Phases": "<- PhasesQ", "MaxWeight": 0, "MaxMLayers": 0,
                  "PMaxLayers": c["PMaxLayers"], "PMaxSteps": c["PMaxSteps"]}
        model = core.run_model("MC_Param", work, spec="PSpec", constants=consts, invariants=["InvFree"],
                               properties=["InvSkeleton"], timeout=3000)
        # histories: TLC behaviours (build a circuit, then substitute)
        simdir = os.path.join(work, "sim")
        os.makedirs(simdir)
        core.run_model("MC_Param", work, spec="PSpec", constants=consts, workers=1,
                       simulate="file=%s/tr,num=%d" % (simdir, c["replay"] * 2), depth=c["PMaxLayers"] + c["PMaxSteps"] + 1,
                       seed=seed, tag="_sim", timeout=3000)
        items, seen = [], set()
        for path in sorted(glob.glob(os.path.join(simdir, "tr_*"))):
            steps = tlaval.read_simulate(path)
            os.remove(path)
            if not steps:
                continue
            last = steps[-1][1]
            if not last["hist"]:
                continue
            start = [s for _, s in steps if not s["hist"]][-1]["pc"]
            key = json.dumps([start, last["hist"]], sort_keys=True)
            if key not in seen:
                seen.add(key)
                items.append((start, last["hist"]))
        items = items[:c["replay"]]
        with mp.get_context("fork").Pool(16) as pool:
            obs = pool.map(observe, [(k, pc, ch) for k, (pc, ch) in enumerate(items)], chunksize=4)
        if any(o["exc"] == "OffGrid" for o in obs):
            raise core.Machinery("a substituted parameter left the 1/8 grid")
        rows = [{"pc": pc, "chain": ch, "res": o["res"], "fs0": o["fs0"], "fs1": o["fs1"], "exc": o["exc"]}
                for (pc, ch), o in zip(items, obs)]
        tf = os.path.join(work, "trace.ndjson")
        core.write_ndjson(tf, rows)
        exp = core.validate("Trace_Param", "Out", tf, work, constants=VC(), timeout=3000)["rows"]
        rejected, clauses = [], Counter()
        for t, o, e in zip(rows, obs, exp):
            clause = judge(o, e)
            clauses[clause] += 1
            if clause != "ok":
                kinds = sorted(set(l["g"]["k"] + ("+" if l["g"]["dg"] else "") for l in t["pc"]["layers"] if l["g"]["par"]))
                numeric = all(p["f"]["cx"] == 0 and p["f"]["cy"] == 0 for st in t["chain"] for p in st)
                excs = [o[k] for k in ("A_exc", "B_exc", "B2_exc", "C_exc") if o[k]]
                rejected.append({"clause": clause, "sig": "param=%s numeric=%d steps=%d | %s chain=%s exc=%s" % (
                    ",".join(kinds), numeric, len(t["chain"]), qadapt.describe_mixed(t["pc"]),
                    json.dumps([[(p["v"], [p["f"]["c0"], p["f"]["cx"], p["f"]["cy"]]) for p in st] for st in t["chain"]]),
                    ",".join(excs) or t["exc"] or "-"), "obs": {"pc": t["pc"], "chain": t["chain"]}})
        # canary: a result whose parameter was not substituted must be rejected
        k = next(i for i, (t, e) in enumerate(zip(rows, exp)) if e["v"][0] == "ok" and t["res"]["layers"] and
                 any(l["g"]["par"] for l in t["res"]["layers"]))
        bad = json.loads(json.dumps(rows[k]))
        for l in bad["res"]["layers"]:
            if l["g"]["par"]:
                l["g"]["pf"]["c0"] += 1
                break
        cf = os.path.join(work, "canary.ndjson")
        core.write_ndjson(cf, [bad])
        got = core.validate("Trace_Param", "Out", cf, work, constants=VC())["rows"][0]["v"][0]
        if got == "ok":
            raise core.Machinery("canary accepted")
        cov = {"states": model["distinct"], "transitions": model["generated"],
               "traces_validated_against_impl": clauses["ok"],
               "samples": [{"circuit": qadapt.describe_mixed(t["pc"]), "chain": t["chain"], "closed": e["closed"]}
                           for t, e in ((rows[0], exp[0]), (rows[len(rows) // 2], exp[len(rows) // 2]), (rows[-1], exp[-1]))],
               "exhaustive": False,
               "model": {"module": "MC_Param", "PMaxLayers": c["PMaxLayers"], "PMaxSteps": c["PMaxSteps"],
                         "invariants": ["InvFree", "InvSkeleton (action property)"], "wall_s": model["wall_s"]},
               "replay": {"histories": len(rows), "closed_results": sum(1 for e in exp if e["closed"]),
                          "lambdify_cases": sum(1 for o in obs if o["C"] is not None or o["C_exc"])},
               "verdicts_by_clause": dict(clauses),
               "canary": {"corrupted": "one substituted parameter shifted by 1/8", "rejected_with": got}}
        return core.finish("C14", tier, seed, LEVEL, cov, rejected, t0, ASSUME)


def replay(path):
    with open(path) as f:
        t = json.load(f)["observation"]
    with core.workdir("C14-replay") as work:
        o = observe((0, t["pc"], t["chain"]))
        row = {"pc": t["pc"], "chain": t["chain"], "res": o["res"], "fs0": o["fs0"], "fs1": o["fs1"], "exc": o["exc"]}
        tf = os.path.join(work, "one.ndjson")
        core.write_ndjson(tf, [row])
        e = core.validate("Trace_Param", "Out", tf, work, constants=VC())["rows"][0]
        clause = judge(o, e)
        print("replayed %s: %s" % (qadapt.describe_mixed(t["pc"]), clause))
        if clause != "ok":
            print("VIOLATION property=C14 replay=%s clause=%s" % (path, clause))
            return 1
    return 0
