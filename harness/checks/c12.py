"""C12 - mixed evaluation agrees with pure evaluation and the Born rule."""
import json
import os
from collections import Counter

from harness import core, tlaval, qadapt

LEVEL = "model_checking"
ASSUME = ["CQ-map layout as in discopy.quantum.cqmap (classical wires, quantum wires, quantum wires again; conjugate "
          "copy first); the maps themselves are defined mathematically in spec/CQ.tla and TLC proves on every mixed "
          "circuit in bounds: doubling of pure circuits, trace preservation of preparations / unitaries / "
          "measurements / discards / stochastic classical gates, normalised counts, adjointness of Encode / MixedState",
          "float comparison of the library's arrays with the float image of TLC's exact arrays: "
          "|x - y| <= 1e-9 * max(1, max|y|)",
          "bounded: mixed circuits of the model (weight = #bits + 2 #qubits of every intermediate type bounded)"]
CONST = {"quick": {"MaxWeight": 4, "MaxMLayers": 2, "replay": 700},
         "thorough": {"MaxWeight": 5, "MaxMLayers": 2, "replay": 5000}}


def VC():
    return {"MaxQ": 0, "MaxLayers": 0, "Phases": "<- PhasesQ", "MaxWeight": 0, "MaxMLayers": 0}


def flat(arr):
    import numpy as np
    return [complex(v) for v in np.asarray(arr, dtype=complex).flatten()]


def observe(mc):
    rec = {"build": "", "mixed": None, "mixed_exc": "", "auto": None, "auto_kind": "", "auto_exc": "",
           "measure": None, "measure_exc": "", "counts": None, "counts_exc": ""}
    try:
        real = qadapt.mixed_circuit(mc)
    except Exception as e:
        rec["build"] = type(e).__name__
        return rec
    try:
        rec["mixed"] = flat(real.eval(mixed=True).array)
    except Exception as e:
        rec["mixed_exc"] = type(e).__name__
    try:
        r = real.eval()
        rec["auto"] = flat(r.array)
        rec["auto_kind"] = "cq" if type(r).__name__ == "CQMap" else "tensor"
    except Exception as e:
        rec["auto_exc"] = type(e).__name__
    try:
        rec["measure"] = flat(real.measure())
    except Exception as e:
        rec["measure_exc"] = type(e).__name__
    import numpy as np
    rec["is_mixed"] = None
    try:
        rec["is_mixed"] = bool(real.is_mixed)
    except Exception:
        pass
    try:
        counts = real.get_counts()
        n = len(real.init_and_discard().cod)
        dense = [0.0] * (2 ** n)
        for bits, v in counts.items():
            idx = 0
            for b in bits:
                idx = 2 * idx + b
            dense[idx] = complex(np.asarray(v).reshape(-1)[0])
        rec["counts"] = dense
    except Exception as e:
        rec["counts_exc"] = type(e).__name__
    return rec


def cmp(exp, got):
    ys = [core.ring_to_complex(p) for p in exp]
    if got is None or len(ys) != len(got):
        return False, None
    scale = max([abs(y) for y in ys] + [1.0])
    dev = max([abs(x - y) for x, y in zip(got, ys)] + [0.0])
    return dev <= 1e-9 * scale, dev


def judge(t, o, e):
    """first failing clause for one circuit (the float comparison step)"""
    if o["build"]:
        return "circuit-cannot-be-built", 0
    if o["mixed_exc"]:
        return "mixed-evaluation-raised", 0
    ok, dev = cmp(e["e"], o["mixed"])
    if not ok:
        return "mixed-evaluation-is-not-the-classical-quantum-map", dev
    if o["auto_exc"]:
        return "evaluation-raised", 0
    if o["auto_kind"] == "cq":
        ok, dev = cmp(e["e"], o["auto"])
        if not ok:
            return "evaluation-is-not-the-classical-quantum-map", dev
    elif e["pure"]:
        ok, dev = cmp(e["pure"], o["auto"])
        if not ok:
            return "pure-evaluation-differs", dev
    elif e["classical"]:
        ok, dev = cmp(e["e"], o["auto"])
        if not ok:
            return "classical-evaluation-differs", dev
    elif not e["mixed"]:
        pass        # classical and pure boxes in sequence without a mixed type: no reading of the statement applies
    else:
        return "mixed-circuit-evaluated-as-pure", 0
    # measure(): Born rule of the amplitudes for pure circuits, the distribution over the output bits for mixed
    # ones; not claimed for non-mixed circuits with open bit inputs (nothing is prepared there)
    if e["pure"]:
        want = e["born"]
    elif o["is_mixed"] or not t["mc"]["ty"]:
        want = e["cnt"]
    else:
        want = None
    if want is not None:
        if o["measure_exc"]:
            return "measure-raised", 0
        ok, dev = cmp(want, o["measure"])
        if not ok:
            return "measure-is-not-the-born-distribution", dev
    if not e["mixed"] and e["amp"]:
        # post-selections / amplitude scalars in a circuit the library evaluates as pure: the statement's last
        # sentence (preparations, unitaries, measurements, discards, stochastic gates) does not cover them
        return "ok", 0
    if o["counts_exc"]:
        return "get-counts-raised", 0
    ok, dev = cmp(e["cnt"], o["counts"])
    if not ok:
        return "counts-are-not-the-born-distribution", dev
    return "ok", 0


def classical_family():
    """purely classical circuits with a genuinely stochastic gate (no qubit, no mixed box): prepared bits, noise,
    copies, negations - what measure() and get_counts() return must be the distribution itself"""
    from harness.checks.c13 import _mg
    B = lambda *bits: {"g": _mg("Bits", bits=list(bits)), "off": 0}
    N, C, X = _mg("Noisy"), _mg("Copy"), _mg("NOT")
    out = []
    for x in (0, 1):
        out.append({"ty": [], "layers": [B(x), {"g": N, "off": 0}]})
        out.append({"ty": [], "layers": [B(x), {"g": N, "off": 0}, {"g": C, "off": 0}]})
        out.append({"ty": [], "layers": [B(x), {"g": N, "off": 0}, {"g": N, "off": 0}]})
        out.append({"ty": [], "layers": [B(x, 1 - x), {"g": N, "off": 0}, {"g": X, "off": 1}, {"g": N, "off": 1}]})
        out.append({"ty": [], "layers": [B(x), {"g": C, "off": 0}, {"g": N, "off": 1}, {"g": _mg("Match"), "off": 0}]})
    return out


def run(tier, seed, t0):
    c = CONST[tier]
    rnd = core.rng(seed, "C12")
    with core.workdir("C12") as work:
        model = core.run_model("MC_CQ", work, spec="MSpec",
                               constants={"MaxQ": 0, "MaxLayers": 0, "Phases": "<- PhasesQ",
                                          "MaxWeight": c["MaxWeight"], "MaxMLayers": c["MaxMLayers"]},
                               invariants=["InvDoubling", "InvTracePreserving", "InvCounts", "InvAdjoints"],
                               dump=True, timeout=3000)
        circuits = [st["mc"] for st in tlaval.read_dump(model["dump"])]
        os.remove(model["dump"])
        n_all = len(circuits)
        singles = [x for x in circuits if len(x["layers"]) <= 1]
        rest = [x for x in circuits if len(x["layers"]) > 1]
        sample = singles + (rest if len(rest) <= c["replay"] else rnd.sample(rest, c["replay"]))
        sample = sample + classical_family()
        rows = [{"mc": x} for x in sample]
        import multiprocessing as mp
        with mp.get_context("fork").Pool(16) as pool:
            obs = pool.map(observe, sample, chunksize=8)
        tf = os.path.join(work, "trace.ndjson")
        core.write_ndjson(tf, rows)
        exp = core.validate("Trace_CQ", "Expect", tf, work, constants=VC(), timeout=3000)["rows"]
        rejected, clauses = core.track([]), Counter()
        max_ok = 0.0
        for t, o, e in zip(rows, obs, exp):
            clause, dev = judge(t, o, e)
            clauses[clause] += 1
            if clause != "ok":
                kinds = sorted(set("%s%s" % (l["g"]["k"], "(%d,%d)" % (l["g"]["f1"], l["g"]["f2"]) if l["g"]["k"] in ("Measure", "Encode") else "")
                                   for l in t["mc"]["layers"]))
                excs = [o[k] for k in ("build", "mixed_exc", "auto_exc", "measure_exc", "counts_exc") if o[k]]
                rejected.append({"clause": clause, "sig": "boxes=%s | %s exc=%s" % (",".join(kinds), qadapt.describe_mixed(t["mc"]),
                                                                               ",".join(excs) or "-"), "obs": t})
        # canary
        k = next(i for i, (t, o, e) in enumerate(zip(rows, obs, exp)) if judge(t, o, e)[0] == "ok" and o["mixed"] and
                 len(o["mixed"]) >= 4 and max(abs(v) for v in o["mixed"]) > 0.2 and len(t["mc"]["layers"]) == 2)
        j = max(range(len(obs[k]["mixed"])), key=lambda i: abs(obs[k]["mixed"][i]))
        bad = dict(obs[k], mixed=[v * (0.5 if i == j else 1) for i, v in enumerate(obs[k]["mixed"])])
        if judge(rows[k], bad, exp[k])[0] == "ok":
            raise core.Machinery("canary accepted")
        cov = {"states": model["distinct"], "transitions": model["generated"],
               "traces_validated_against_impl": clauses["ok"],
               "samples": [{"circuit": qadapt.describe_mixed(t["mc"]), "cq_entries": len(e["e"]), "output_bits": e["nbits"]}
                           for t, e in ((rows[3], exp[3]), (rows[len(rows) // 2], exp[len(rows) // 2]), (rows[-1], exp[-1]))],
               "exhaustive": len(sample) == n_all,
               "model": {"module": "MC_CQ", "MaxWeight": c["MaxWeight"], "MaxMLayers": c["MaxMLayers"], "wall_s": model["wall_s"],
                         "invariants": ["InvDoubling", "InvTracePreserving", "InvCounts", "InvAdjoints"]},
               "replay": {"circuits_in_model": n_all, "circuits_replayed": len(sample),
                          "observations_per_circuit": ["eval(mixed=True)", "eval()", "measure()", "get_counts()"]},
               "verdicts_by_clause": dict(clauses),
               "canary": {"corrupted": "largest entry of a returned CQ array halved", "rejected_with": "deviation above tolerance"}}
        return core.finish("C12", tier, seed, LEVEL, cov, rejected, t0, ASSUME)


def replay(path):
    with open(path) as f:
        t = json.load(f)["observation"]
    with core.workdir("C12-replay") as work:
        tf = os.path.join(work, "one.ndjson")
        core.write_ndjson(tf, [t])
        e = core.validate("Trace_CQ", "Expect", tf, work, constants=VC())["rows"][0]
        clause, _ = judge(t, observe(t["mc"]), e)
        print("replayed %s: %s" % (qadapt.describe_mixed(t["mc"]), clause))
        if clause != "ok":
            print("VIOLATION property=C12 replay=%s clause=%s" % (path, clause))
            return 1
    return 0
