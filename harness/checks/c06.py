"""C06 - monoidal normal form is a sound, idempotent, canonical representative."""
from harness import core
from harness.checks import _diagapi

LEVEL = "model_checking"
ASSUME = ["canonicity on the code is checked edge-wise: normal_form of a diagram equals normal_form of each "
          "of its interchange neighbours and of its own normal form; the model (InvNormalForm) shows that the "
          "states cover every member and every edge of each class within the bounds",
          "'same denotation under every monoidal functor' follows from reachability by interchanges (C05) "
          "and is checked numerically by C09",
          "a diagram is connected when its boxes are joined by wires (boundary wires do not connect)",
          "normalize() of a disconnected diagram may run forever: the harness stops after 60 yielded steps"]


def run(tier, seed, t0):
    # deeper exhaustive machine over two generators (connected diagrams with tie pairs, up to 5-6 boxes)
    covt, rejt = _diagapi.run("C06", "J06", tier, seed, t0, cls="tie", invariants=["InvWellTyped", "InvNormalForm"], drift=True)
    cov, rej = _diagapi.run("C06", "J06", tier, seed, t0, invariants=["InvWellTyped", "InvNormalForm"],
                            drift=True, families=True)
    cov["tie_machine"] = {k: covt[k] for k in ("states", "transitions", "traces_validated_against_impl", "model", "replay",
                                               "verdicts_by_clause", "canary", "model_drift")}
    cov["states"] += covt["states"]
    cov["transitions"] += covt["transitions"]
    cov["traces_validated_against_impl"] += covt["traces_validated_against_impl"]
    return core.finish("C06", tier, seed, LEVEL, cov, rej + rejt, t0, ASSUME)


def replay(path):
    return _diagapi.replay_one("C06", "J06", path)
