"""C13 - translation to and from tket preserves the meaning of circuits."""
import json
import math
import multiprocessing as mp
import os
from collections import Counter
from fractions import Fraction

from harness import core, tlaval, qadapt

LEVEL = "model_checking"
ASSUME = ["the tket circuit returned by to_tk is recorded as (n_qubits, n_bits, get_commands(), post_selection, scalar, "
          "post_processing) and simulated exactly by TLC (Tket!TkDist: branch vectors over the exact ring), then post-"
          "selected, scaled and post-processed (Tket!Post); the result must equal CQ!Counts of the circuit exactly",
          "from_tk is judged the same way on the circuit it returns (CQ!Counts of the import = Post of the tket circuit), "
          "for the exported circuits (round trip) and for tket circuits assembled by the harness from the supported "
          "operations with non-adjacent and reversed qubit arguments and mid-circuit measurements",
          "backend clause: a mock backend answers process_circuits with exact frequencies from a 40-line numpy branch "
          "simulator; its answer is itself compared with TLC's TkDist, and get_counts(backend) / eval(backend) with "
          "TLC's exact distribution (float comparison 1e-9)",
          "rotation angles on the 1/8-turn grid; circuits the exporter refuses with NotImplementedError are counted, "
          "not judged (no tket circuit is produced)",
          "bounded: circuits of Tket!TBuild (weight and depth bounded); the register bookkeeping of to_tk is not "
          "transcribed at algorithm level (no MODEL-DRIFT report for C13)"]
CONST = {"quick": {"MaxWeight": 4, "MaxMLayers": 3, "replay": 130, "tk_random": 40},
         "thorough": {"MaxWeight": 5, "MaxMLayers": 3, "replay": 1200, "tk_random": 400}}
EMPTY_MC = {"ty": [], "layers": []}
EMPTY_TK = {"nq": 0, "nb": 0, "cmds": [], "postsel": [], "sc": {"re": 1, "im": 0, "s": 0}, "post": EMPTY_MC}
OPS1 = ["H", "X", "Y", "Z", "S", "T", "Sdg", "Tdg", "Rx", "Rz"]
OPS2 = ["CX", "CZ", "CRz"]      # (tket SWAP is refused by from_tk: NotImplementedError)


class Unprojectable(Exception):
    pass


def VC():
    return {"MaxQ": 0, "MaxLayers": 0, "Phases": "<- PhasesQ", "MaxWeight": 0, "MaxMLayers": 0}


def gauss(z):
    z = complex(z)
    for s in range(0, 14):
        re, im = z.real * math.sqrt(2) ** s, z.imag * math.sqrt(2) ** s
        if abs(re - round(re)) < 1e-9 and abs(im - round(im)) < 1e-9:
            return {"re": int(round(re)), "im": int(round(im)), "s": s}
    raise Unprojectable("scalar %r" % (z,))


def eighths(phase):
    v = Fraction(float(phase)).limit_denominator(1 << 20) * 8
    if v.denominator != 1:
        raise Unprojectable("phase %r" % (phase,))
    return int(v)


def base_g(k):
    return {"k": k, "ph": 0, "bits": [], "dg": 0, "sub": "", "subdg": 0, "re": 0, "im": 0, "s": 0,
            "n": 0, "f1": 0, "f2": 0, "tl": [], "tr": [], "par": 0, "pf": {"c0": 0, "cx": 0, "cy": 0}}


def proj_box(b):
    """real circuit box -> abstract box of CQ.tla"""
    from discopy.quantum import circuit as C
    from discopy.quantum import gates as G
    ty = lambda t: ["q" if o.name == "qubit" else "b" for o in t]
    name = type(b).__name__
    if isinstance(b, G.Ket):
        return dict(base_g("Ket"), bits=list(b.bitstring))
    if isinstance(b, G.Bra):
        return dict(base_g("Bra"), bits=list(b.bitstring))
    if isinstance(b, G.Bits):
        if b.is_dagger:
            raise Unprojectable("Bits dagger")
        return dict(base_g("Bits"), bits=list(b.bitstring))
    if isinstance(b, C.Swap):
        return dict(base_g("MSwap"), tl=ty(b.left), tr=ty(b.right))
    if isinstance(b, G.Rotation):
        return dict(base_g(name), ph=eighths(b.phase))
    if isinstance(b, C.Measure):
        return dict(base_g("Measure"), n=b.n_qubits, f1=int(b.destructive), f2=int(b.override_bits))
    if isinstance(b, C.Encode):
        return dict(base_g("Encode"), n=b.n_bits, f1=int(b.constructive), f2=int(b.reset_bits))
    if isinstance(b, C.Discard):
        return dict(base_g("Discard"), tl=ty(b.dom))
    if isinstance(b, C.MixedState):
        return dict(base_g("MixedState"), tl=ty(b.cod))
    if isinstance(b, G.Scalar):
        return dict(base_g("mscalar" if b.is_mixed else "scalar"), **gauss(b.data if name != "Sqrt" else b.array[0]))
    if isinstance(b, G.Copy):
        return base_g("Copy")
    if isinstance(b, G.Match):
        return base_g("Match")
    if isinstance(b, G.ClassicalGate) and b.name == "NOT":
        return base_g("NOT")
    if isinstance(b, G.QuantumGate) and b.name in ("H", "S", "T", "X", "Y", "Z", "CX", "CZ"):
        return dict(base_g(b.name), dg=int(bool(b._dagger)))
    raise Unprojectable(repr(b))


def proj_mixed(d):
    return {"ty": ["q" if o.name == "qubit" else "b" for o in d.dom],
            "layers": [{"g": proj_box(b), "off": int(o)} for b, o in zip(d.boxes, d.offsets)]}


def proj_tk(t):
    cmds = []
    for cmd in t.get_commands():
        op = cmd.op.type.name
        ph = 0
        if cmd.op.params:
            v = Fraction(float(cmd.op.params[0])).limit_denominator(1 << 20) * 4      # half turns -> eighths of a turn
            if v.denominator != 1:
                raise Unprojectable("tket angle %r" % (cmd.op.params[0],))
            ph = int(v)
        cmds.append({"op": op, "ph": ph, "qs": [q.index[0] for q in cmd.qubits], "bs": [b.index[0] for b in cmd.bits]})
    return {"nq": t.n_qubits, "nb": len(t.bits), "cmds": cmds,
            "postsel": [{"b": int(k), "v": int(v)} for k, v in sorted(t.post_selection.items())],
            "sc": gauss(t.scalar), "post": proj_mixed(t.post_processing)}


def build_tk(a):
    """abstract tket circuit -> discopy.quantum.tk.Circuit"""
    from discopy.quantum import tk
    # (post-selection goes through the constructor: post_select() on a finished circuit does not shrink post_processing)
    t = tk.Circuit(a["nq"], a["nb"], post_selection={p["b"]: p["v"] for p in a["postsel"]} or None)
    for c in a["cmds"]:
        if c["op"] == "Measure":
            t.Measure(c["qs"][0], c["bs"][0])
        elif c["op"] in ("Rx", "Rz", "CRz"):
            getattr(t, c["op"])(c["ph"] / 4, *c["qs"])
        else:
            getattr(t, c["op"])(*c["qs"])
    return t


def simulate(t):
    """exact frequencies of a tket circuit: numpy branch simulator over get_commands() (the mock backend)"""
    import numpy as np
    from pytket.circuit import Op, OpType
    nq, nb = t.n_qubits, len(t.bits)
    branches = [([0] * nb, np.eye(1, 2 ** nq, 0, dtype=complex).reshape((2,) * nq) if nq else np.array(1 + 0j))]
    for cmd in t.get_commands():
        qs = [q.index[0] for q in cmd.qubits]
        if cmd.op.type.name == "Measure":
            new = []
            for bits, vec in branches:
                for x in (0, 1):
                    v2 = vec.copy()
                    idx = [slice(None)] * nq
                    idx[qs[0]] = 1 - x
                    v2[tuple(idx)] = 0
                    b2 = list(bits)
                    b2[cmd.bits[0].index[0]] = x
                    new.append((b2, v2))
            branches = new
        else:
            U = np.asarray(cmd.op.get_unitary()).reshape((2,) * (2 * len(qs)))
            out = []
            for bits, vec in branches:
                v2 = np.tensordot(U, vec, (list(range(len(qs), 2 * len(qs))), qs))
                v2 = np.moveaxis(v2, list(range(len(qs))), qs)
                out.append((bits, v2))
            branches = out
    dist = {}
    for bits, vec in branches:
        p = float(np.sum(np.abs(vec) ** 2))
        if p > 0:
            dist[tuple(bits)] = dist.get(tuple(bits), 0.0) + p
    return dist


class MockBackend:
    def __init__(self):
        self.answers, self.seen = [], []

    def process_circuits(self, circuits, n_shots=None, seed=None):
        self.answers = [simulate(c) for c in circuits]
        self.seen = list(circuits)
        return list(range(len(self.answers)))

    def get_result(self, handle):
        backend = self

        class R:
            def get_counts(self_inner):
                from collections import Counter as C
                # exact frequencies as (large) integer counts: probs_from_counts renormalises them
                return C({k: v for k, v in backend.answers[handle].items()})
        return R()


def observe_to(mc):
    rec = {"kind": "to_tk", "mc": mc, "tk": EMPTY_TK, "exc": "", "refused": 0, "mock": None, "counts": None, "counts_exc": "",
           "evalb": None, "evalb_exc": "", "batched": None, "batched_exc": "", "local": None, "local_exc": ""}
    try:
        real = qadapt.mixed_circuit(mc)
        t = real.to_tk()
        rec["tk"] = proj_tk(t)
    except NotImplementedError:
        rec["refused"] = 1
        return rec, None
    except Unprojectable as e:
        rec["exc"] = "Unprojectable"
        return rec, None
    except Exception as e:
        rec["exc"] = type(e).__name__
        return rec, None
    # backend clause
    try:
        mb = MockBackend()
        counts = real.get_counts(mb)
        n = len(real.init_and_discard().cod)
        dense = [0.0] * (2 ** n)
        for bits, v in counts.items():
            idx = 0
            for b in bits:
                idx = 2 * idx + b
            dense[idx] = complex(v)
        rec["counts"] = dense
        raw = mb.answers[0]
        nb = rec["tk"]["nb"]
        dense_raw = [0.0] * (2 ** nb)
        for bits, v in raw.items():
            idx = 0
            for b in bits:
                idx = 2 * idx + b
            dense_raw[idx] = v
        rec["mock"] = dense_raw
    except Exception as e:
        rec["counts_exc"] = type(e).__name__
    # the circuit's own mixed evaluation (after initialising inputs and discarding qubits): the other side of the statement
    try:
        import numpy as np
        rec["local"] = [complex(v) for v in np.asarray(real.init_and_discard().eval(mixed=True).array).flatten()]
    except Exception as e:
        rec["local_exc"] = type(e).__name__
    # the same circuit as the second of a batch whose first circuit carries another scalar (tket scalar 4)
    try:
        from discopy.quantum import Ket, Measure, scalar
        both = (Ket(0) @ scalar(2) >> Measure()).get_counts(real, backend=MockBackend())
        n = len(real.init_and_discard().cod)
        dense = [0.0] * (2 ** n)
        for bits, v in both[1].items():
            idx = 0
            for b in bits:
                idx = 2 * idx + b
            dense[idx] = complex(v)
        rec["batched"] = dense
    except Exception as e:
        rec["batched_exc"] = type(e).__name__
    try:
        import numpy as np
        mb = MockBackend()
        r = real.eval(mb)
        rec["evalb"] = [complex(v) for v in np.asarray(r.array).flatten()]
    except Exception as e:
        rec["evalb_exc"] = type(e).__name__
    return rec, t


def observe_from(tk_abs, tk_real=None, src=None):
    """src: the circuit whose export tk_real is (kept so that a replay can redo export and import)"""
    from discopy.quantum.circuit import Circuit
    rec = {"kind": "from_tk", "mc": EMPTY_MC, "tk": tk_abs, "exc": "", "refused": 0, "src": src}
    try:
        t = tk_real if tk_real is not None else build_tk(tk_abs)
        back = Circuit.from_tk(t)
        rec["mc"] = proj_mixed(back)
        nq, nb = tk_abs["nq"], tk_abs["nb"]
        if nb == 0 and not tk_abs["postsel"] and all(l["g"]["k"] == "Discard" for l in rec["mc"]["layers"][-nq:]) and nq:
            # measurement-free: judge the pure part against the tket state vector (cheap for 3 qubits)
            layers = [l for l in rec["mc"]["layers"] if l["g"]["k"] != "Discard"]
            if all(l["g"]["k"] not in ("Measure", "Encode", "MixedState", "mscalar", "Bits") for l in layers):
                rec["kind"], rec["mc"] = "from_tk_pure", {"ty": rec["mc"]["ty"], "layers": layers}
        elif 2 * nq + nb > 4:
            rec["refused"] = 2          # too large for the full classical-quantum array: not judged (counted)
    except NotImplementedError:
        rec["refused"] = 1
    except Unprojectable:
        rec["exc"] = "Unprojectable"
    except Exception as e:
        rec["exc"] = type(e).__name__
    return rec


def _mg(k, n=0, f1=0, f2=0, tl=(), tr=(), **kw):
    g = {"k": k, "ph": 0, "bits": [], "dg": 0, "sub": "", "subdg": 0, "re": 0, "im": 0, "s": 0, "n": n, "f1": f1, "f2": f2,
         "tl": list(tl), "tr": list(tr), "par": 0, "pf": {"c0": 0, "cx": 0, "cy": 0}}
    g.update(kw)
    return g


def dead_wire_family():
    """Three qubits of which the middle one dies (post-selected or discarded) before the outer two are swapped and
    measured: the swap acts on wires that are adjacent in the diagram but not in tket's qubit register."""
    out = []
    for bits in ([1, 0, 0], [0, 1, 1]):
        for kill in (_mg("Bra", bits=[bits[1]]), _mg("Discard", tl=["q"])):
            for mid in ((), ("H",)):
                layers = [{"g": _mg("Ket", bits=bits), "off": 0}]
                layers += [{"g": _mg(k), "off": 1} for k in mid]
                if kill["k"] == "Bra" and mid:
                    continue        # post-selecting after H only adds a 1/sqrt2 weight; keep the family small
                layers += [{"g": kill, "off": 1}, {"g": _mg("MSwap", tl=["q"], tr=["q"]), "off": 0},
                           {"g": _mg("Measure", n=1, f1=1, f2=0), "off": 0}, {"g": _mg("Measure", n=1, f1=1, f2=0), "off": 1}]
                out.append({"ty": [], "layers": layers})
    return out


def postselection_chain_family():
    """A live bit, two qubits post-selected after it (two Bra boxes: two post-selected tket bits are renamed one
    after the other), then a fresh bit to the right of the live bit."""
    out = []
    for a in (0, 1):
        for b1, b2 in ((0, 1), (1, 0), (0, 0)):
            layers = [{"g": _mg("Bits", bits=[a]), "off": 0}, {"g": _mg("Ket", bits=[0, 0]), "off": 1},
                      {"g": _mg("H"), "off": 1}, {"g": _mg("X"), "off": 2},
                      {"g": _mg("Bra", bits=[b1]), "off": 1}, {"g": _mg("Bra", bits=[b2]), "off": 1},
                      {"g": _mg("Bits", bits=[0]), "off": 1}]
            out.append({"ty": [], "layers": layers})
            out.append({"ty": [], "layers": layers[:-1]})
    return out


def bit_after_copy_family():
    """a bit created after a classical gate that changes the number of bits (Copy, Match)"""
    out = []
    for x in (0, 1):
        head = [{"g": _mg("Ket", bits=[x]), "off": 0}, {"g": _mg("Measure", n=1, f1=1, f2=0), "off": 0}]
        out.append({"ty": [], "layers": head + [{"g": _mg("Copy"), "off": 0}, {"g": _mg("Bits", bits=[0]), "off": 2}]})
        out.append({"ty": [], "layers": head + [{"g": _mg("Copy"), "off": 0}, {"g": _mg("Match"), "off": 0},
                                                 {"g": _mg("Bits", bits=[0]), "off": 1}]})
    return out


def overriding_measure_family():
    """a classical gate on a bit that a later Measure(override_bits=True) overwrites"""
    out = []
    for pre in ((), ("H",), ("X",)):
        layers = [{"g": _mg(k), "off": 0} for k in pre]
        layers += [{"g": _mg("Bits", bits=[0]), "off": 1}, {"g": _mg("NOT"), "off": 1},
                   {"g": _mg("Measure", n=1, f1=0, f2=1), "off": 0}]
        out.append({"ty": ["q"], "layers": layers})
    return out


def bit_swap_after_postselection_family():
    """two measured bits exchanged while tket bit 0 is post-selected (the exporter swaps tket bits through a temporary
    unit tmp[0]: the post-selection must stay on its own bit)"""
    out = []
    for bras in ([0], [1]):
        for pos in (0, 2):
            layers = [{"g": _mg("Ket", bits=[0, 0, 0]), "off": 0}, {"g": _mg("H"), "off": 1 if pos == 0 else 0},
                      {"g": _mg("X"), "off": 2 if pos == 0 else 1}]
            if bras == [1]:
                layers.append({"g": _mg("X"), "off": pos})
            layers += [{"g": _mg("Bra", bits=bras), "off": pos}, {"g": _mg("Measure", n=1, f1=1, f2=0), "off": 0},
                       {"g": _mg("Measure", n=1, f1=1, f2=0), "off": 1}, {"g": _mg("MSwap", tl=["b"], tr=["b"]), "off": 0}]
            out.append({"ty": [], "layers": layers})
    return out


def daggered_gate_family():
    """the adjoint of a named gate between two Hadamards (the phase it applies is read out in the X basis), alone and
    after the gate itself; S and T have tket adjoints Sdg and Tdg, the other named gates are their own adjoints"""
    out = []
    M = {"g": _mg("Measure", n=1, f1=1, f2=0), "off": 0}
    for k in ("S", "T", "Y", "H", "X"):
        for pre in ((), ("S",), ("T", "T")):
            layers = [{"g": _mg("Ket", bits=[0]), "off": 0}, {"g": _mg("H"), "off": 0}] + [{"g": _mg(p), "off": 0} for p in pre]
            layers += [{"g": _mg(k, dg=1), "off": 0}, {"g": _mg("H"), "off": 0}, M]
            out.append({"ty": [], "layers": layers})
    for k in ("S", "T"):
        out.append({"ty": [], "layers": [{"g": _mg("Ket", bits=[0, 1]), "off": 0}, {"g": _mg("H"), "off": 0}, {"g": _mg("CX"), "off": 0},
                                          {"g": _mg(k, dg=1), "off": 1}, {"g": _mg("CX"), "off": 0}, {"g": _mg(k), "off": 0},
                                          {"g": _mg("H"), "off": 0}, M, dict(M, off=1)]})
    # controlled gates whose target carries the dagger flag (tket: CSdg; CY and CH are their own adjoints): the control in
    # superposition, the target on |1>, the phase kicked back onto the control undone by S (or not) and read out
    for sub, sd in (("S", 1), ("S", 0), ("Y", 1), ("Y", 0), ("H", 1)):
        for undo in (("S",), ("S", "S", "S"), ()):
            layers = [{"g": _mg("Ket", bits=[0, 1]), "off": 0}, {"g": _mg("H"), "off": 0}, {"g": _mg("Ctrl", sub=sub, subdg=sd), "off": 0}]
            layers += [{"g": _mg(u), "off": 0} for u in undo] + [{"g": _mg("H"), "off": 0}, M, dict(M, off=1)]
            out.append({"ty": [], "layers": layers})
        # the target on an eigenstate of Y (S H |0>): the eigenvalue is kicked back onto the control as a sign
        layers = [{"g": _mg("Ket", bits=[0, 0]), "off": 0}, {"g": _mg("H"), "off": 0}, {"g": _mg("H"), "off": 1}, {"g": _mg("S"), "off": 1},
                  {"g": _mg("Ctrl", sub=sub, subdg=sd), "off": 0}, {"g": _mg("H"), "off": 0}, M, dict(M, off=1)]
        out.append({"ty": [], "layers": layers})
    return out


def rotation_export_family():
    """rotations whose phase lies outside the first turn, or is negative (the adjoint of a rotation), exported: for a
    controlled rotation a whole turn is not a global phase"""
    out = []
    M = {"g": _mg("Measure", n=1, f1=1, f2=0), "off": 0}
    for ph in (-3, -1, 8, 9, 12, 13):
        out.append({"ty": [], "layers": [{"g": _mg("Ket", bits=[0, 0]), "off": 0}, {"g": _mg("H"), "off": 0}, {"g": _mg("H"), "off": 1},
                                          {"g": _mg("CRz", ph=ph), "off": 0}, {"g": _mg("H"), "off": 0}, {"g": _mg("H"), "off": 1},
                                          M, dict(M, off=1)]})
        for k in ("Rz", "Rx"):
            out.append({"ty": [], "layers": [{"g": _mg("Ket", bits=[0]), "off": 0}, {"g": _mg("H"), "off": 0},
                                              {"g": _mg(k, ph=ph), "off": 0}, {"g": _mg("S"), "off": 0}, {"g": _mg("H"), "off": 0}, M]})
    return out


def sqrt_scalar_family():
    """square-root scalars whose radicand is negative or complex (gates.Sqrt: the amplitude i is Sqrt(-1), 1 + i is
    Sqrt(2i)): the export must scale by the squared modulus of the root, not by the radicand"""
    out = []
    M = {"g": _mg("Measure", n=1, f1=1, f2=0), "off": 0}
    for re, im, s in ((0, 1, 0), (1, 1, 0), (1, 1, 2), (1, 0, 1)):
        sc = _mg("scalar", re=re, im=im, s=s, sub="sqrt")
        out.append({"ty": [], "layers": [{"g": _mg("Ket", bits=[0]), "off": 0}, {"g": _mg("H"), "off": 0}, {"g": sc, "off": 0}, M]})
        out.append({"ty": [], "layers": [{"g": sc, "off": 0}, {"g": _mg("Ket", bits=[1]), "off": 0}, M, {"g": sc, "off": 1}]})
    return out


def ket_after_hole_family():
    """a qubit is removed (post-selected, discarded or measured destructively), leaving a hole in tket's register; then a
    fresh qubit is prepared to the right of a wire that is still live"""
    out = []
    kills = [_mg("Bra", bits=[0]), _mg("Discard", tl=["q"]), _mg("Measure", n=1, f1=1, f2=0)]
    for kill in kills:
        for hole in (0, 1):
            layers = [{"g": _mg("Ket", bits=[0, 0] if hole == 0 else [0, 0, 0]), "off": 0}]
            if hole == 1:
                layers.append({"g": _mg("X"), "off": 2})
            layers.append({"g": kill, "off": hole})
            ty = ["q"] * (1 if hole == 0 else 2)
            if kill["k"] == "Measure":
                ty = ty[:hole] + ["b"] + ty[hole:]
            # the new qubit goes to the right end of the qubits (bits, if any, sit where the measured qubit was)
            nq_left = len(ty)
            layers.append({"g": _mg("Ket", bits=[0]), "off": nq_left})
            first_q = ty.index("q")
            layers.append({"g": _mg("X"), "off": first_q})
            layers.append({"g": _mg("H"), "off": nq_left})
            if kill["k"] != "Measure":
                layers.append({"g": _mg("Measure", n=len(ty) + 1, f1=1, f2=0), "off": 0})
            out.append({"ty": [], "layers": layers})
    return out


def work_one(mc):
    rec, t = observe_to(mc)
    out = [rec]
    if t is not None:
        out.append(observe_from(rec["tk"], t, src=mc))
    return out


def random_tk(rnd):
    nq, nb = rnd.randrange(1, 4), rnd.randrange(0, 3)
    cmds, measured = [], set()
    for _ in range(rnd.randrange(1, 6)):
        r = rnd.random()
        if r < 0.2 and nb:
            cmds.append({"op": "Measure", "ph": 0, "qs": [rnd.randrange(nq)], "bs": [rnd.randrange(nb)]})
        elif r < 0.6 or nq < 2:
            op = rnd.choice(OPS1)
            cmds.append({"op": op, "ph": rnd.choice([1, 3, 6, 11, -2]) if op in ("Rx", "Rz") else 0, "qs": [rnd.randrange(nq)], "bs": []})
        else:
            op = rnd.choice(OPS2)
            a, b = rnd.sample(range(nq), 2)
            cmds.append({"op": op, "ph": rnd.choice([1, 5, 9, 13, -3]) if op == "CRz" else 0, "qs": [a, b], "bs": []})
    postsel = []        # plain tket circuits: post-selection is DisCoPy's own extension
    post_ty = ["b"] * (nb - len(postsel))
    return {"nq": nq, "nb": nb, "cmds": cmds, "postsel": postsel, "sc": {"re": 1, "im": 0, "s": 0},
            "post": {"ty": post_ty, "layers": []}}


def rotation_import_family():
    """tket circuits whose rotation angles lie outside the first turn (tket reduces angles modulo 4 half-turns; for a
    controlled rotation the second turn is not a global phase), control and target in superposition, read out in the X basis"""
    out = []
    for ph in (1, 5, 9, 13, -3):
        for op, qs in (("CRz", [0, 1]), ("CRz", [1, 0])):
            cmds = [{"op": "H", "ph": 0, "qs": [0], "bs": []}, {"op": "H", "ph": 0, "qs": [1], "bs": []},
                    {"op": op, "ph": ph, "qs": qs, "bs": []},
                    {"op": "H", "ph": 0, "qs": [0], "bs": []}, {"op": "H", "ph": 0, "qs": [1], "bs": []},
                    {"op": "Measure", "ph": 0, "qs": [0], "bs": [0]}, {"op": "Measure", "ph": 0, "qs": [1], "bs": [1]}]
            out.append({"nq": 2, "nb": 2, "cmds": cmds, "postsel": [], "sc": {"re": 1, "im": 0, "s": 0},
                        "post": {"ty": ["b", "b"], "layers": []}})
        for op in ("Rx", "Rz"):
            cmds = [{"op": "H", "ph": 0, "qs": [0], "bs": []}, {"op": op, "ph": ph, "qs": [0], "bs": []},
                    {"op": "H", "ph": 0, "qs": [0], "bs": []}, {"op": "Measure", "ph": 0, "qs": [0], "bs": [0]}]
            out.append({"nq": 1, "nb": 1, "cmds": cmds, "postsel": [], "sc": {"re": 1, "im": 0, "s": 0},
                        "post": {"ty": ["b"], "layers": []}})
    return out


def distant_gate_family():
    """two-qubit tket gates whose qubits are three apart (four-qubit register, no measurement: judged on the state)"""
    out = []
    for op, ph in (("CX", 0), ("CZ", 0), ("CRz", 3)):
        for qs in ([0, 3], [3, 0], [1, 3], [0, 2]):
            cmds = [{"op": "H", "ph": 0, "qs": [q], "bs": []} for q in (0, 3)] + [{"op": "X", "ph": 0, "qs": [1], "bs": []}] + \
                   [{"op": op, "ph": ph, "qs": qs, "bs": []}, {"op": "T", "ph": 0, "qs": [qs[1]], "bs": []},
                    {"op": "H", "ph": 0, "qs": [qs[0]], "bs": []}]
            out.append({"nq": 4, "nb": 0, "cmds": cmds, "postsel": [], "sc": {"re": 1, "im": 0, "s": 0},
                        "post": {"ty": [], "layers": []}})
    return out


def features(mc):
    """which of the situations named in known_findings.json occur in the circuit"""
    ty = list(mc["ty"])
    out = {"discards-bit": 0, "new-bit-left-of-existing-bit": 0, "new-bit-after-copy-or-match": 0,
           "classical-gate-before-overriding-measure": 0}
    arity_changed = classical_seen = False
    for l in mc["layers"]:
        g, o = l["g"], l["off"]
        if classical_seen and g["k"] == "Measure" and g["f2"]:
            out["classical-gate-before-overriding-measure"] = 1
        if g["k"] in ("NOT", "Copy", "Match") or (g["k"] == "MSwap" and g["tl"] == ["b"] and g["tr"] == ["b"]):
            classical_seen = True
        if arity_changed and (g["k"] == "Bits" or (g["k"] == "Measure" and not g["f2"])):
            out["new-bit-after-copy-or-match"] = 1
        if g["k"] in ("Copy", "Match"):
            arity_changed = True
        dom = (["q"] * g["n"] + (["b"] * g["n"] if g["f2"] else [])) if g["k"] == "Measure" else None
        if g["k"] == "Discard" and "b" in g["tl"]:
            out["discards-bit"] = 1
        if g["k"] == "Measure" and not g["f2"] and "b" in ty[o + len(dom):]:
            out["new-bit-left-of-existing-bit"] = 1
        if g["k"] == "Bits" and "b" in ty[o:]:
            out["new-bit-left-of-existing-bit"] = 1
        # advance the type
        from harness.checks.c13 import box_io
        d, c = box_io(g)
        ty = ty[:o] + c + ty[o + len(d):]
    return out


def box_io(g):
    k = g["k"]
    n = g["n"]
    if k == "Measure":
        return ["q"] * n + (["b"] * n if g["f2"] else []), ([] if g["f1"] else ["q"] * n) + ["b"] * n
    if k == "Encode":
        return ([] if g["f1"] else ["q"] * n) + ["b"] * n, ["q"] * n + (["b"] * n if g["f2"] else [])
    if k == "Discard":
        return list(g["tl"]), []
    if k == "MixedState":
        return [], list(g["tl"])
    if k == "Bits":
        return [], ["b"] * len(g["bits"])
    if k == "Ket":
        return [], ["q"] * len(g["bits"])
    if k == "Bra":
        return ["q"] * len(g["bits"]), []
    if k in ("NOT",):
        return ["b"], ["b"]
    if k == "Copy":
        return ["b"], ["b", "b"]
    if k == "Match":
        return ["b", "b"], ["b"]
    if k == "MSwap":
        return list(g["tl"]) + list(g["tr"]), list(g["tr"]) + list(g["tl"])
    if k in ("scalar", "mscalar"):
        return [], []
    nq = 2 if k in ("CX", "CZ", "SWAP", "CU1", "CRz", "CRx", "Ctrl") else 1
    return ["q"] * nq, ["q"] * nq


def cmp(exp, got):
    ys = [core.ring_to_complex(p) for p in exp]
    if got is None or len(ys) != len(got):
        return False
    scale = max([abs(y) for y in ys] + [1.0])
    return max([abs(a - b) for a, b in zip(got, ys)] + [0.0]) <= 1e-9 * scale


def local_clauses(r, e):
    """the clauses of an exported circuit that compare the library's own numbers (backend runs, batch, own mixed
    evaluation) with TLC's exact distribution e["want"]"""
    if r["counts_exc"]:
        return "get-counts-through-backend-raised"
    if not cmp(e["raw"], r["mock"]):
        raise core.Machinery("the mock backend's frequencies disagree with Tket!TkDist on %s" % json.dumps(r["tk"]))
    if not cmp(e["want"], r["counts"]):
        return "counts-through-exact-backend-differ-from-local-evaluation"
    if r["local_exc"] or not cmp(e["want"], r["local"]):
        return "the-circuits-own-mixed-evaluation-is-not-the-distribution-the-export-was-judged-against"
    if r["batched_exc"]:
        return "get-counts-of-a-batch-through-backend-raised"
    if not cmp(e["want"], r["batched"]):
        return "counts-of-the-second-circuit-of-a-batch-differ-from-local-evaluation"
    if r["evalb_exc"]:
        return "eval-through-backend-raised"
    if not cmp(e["want"], r["evalb"]):
        return "eval-through-exact-backend-differs-from-local-evaluation"
    return "ok"


def run(tier, seed, t0):
    c = CONST[tier]
    rnd = core.rng(seed, "C13")
    with core.workdir("C13") as work:
        model = core.run_model("MC_Tket", work, spec="TSpec",
                               constants={"MaxQ": 0, "MaxLayers": 0, "Phases": "<- PhasesQ", "MaxWeight": c["MaxWeight"],
                                          "MaxMLayers": c["MaxMLayers"]}, invariants=["InvTkCounts"], dump=True, timeout=3000)
        circuits = [st["mc"] for st in tlaval.read_dump(model["dump"]) if st["mc"]["layers"]]
        os.remove(model["dump"])
        n_all = len(circuits)
        sample = circuits if len(circuits) <= c["replay"] else rnd.sample(circuits, c["replay"])
        sample = sample + dead_wire_family() + postselection_chain_family() + bit_after_copy_family() + overriding_measure_family() + bit_swap_after_postselection_family() + ket_after_hole_family() + daggered_gate_family() + rotation_export_family() + sqrt_scalar_family()
        with mp.get_context("fork").Pool(16) as pool:
            nested = pool.map(work_one, sample, chunksize=4)
        recs = [r for group in nested for r in group]
        recs += [observe_from(random_tk(rnd)) for _ in range(c["tk_random"])]
        recs += [observe_from(t) for t in rotation_import_family() + distant_gate_family()]
        judged = [r for r in recs if not r["refused"]]
        rows = [{"kind": r["kind"], "mc": r["mc"], "tk": r["tk"], "exc": r["exc"]} for r in judged]
        tf = os.path.join(work, "trace.ndjson")
        core.write_ndjson(tf, rows)
        exp = core.validate("Trace_Tket", "Out", tf, work, constants=VC(), timeout=3000)["rows"]
        rejected, clauses = core.track([]), Counter()
        for r, e in zip(judged, exp):
            clause = e["v"][0]
            if clause == "ok" and r["kind"] == "to_tk":
                clause = local_clauses(r, e)
            clauses[clause] += 1
            if clause != "ok":
                boxes = sorted(set(l["g"]["k"] + ("(%d,%d)" % (l["g"]["f1"], l["g"]["f2"]) if l["g"]["k"] == "Measure" else "")
                                   for l in r["mc"]["layers"])) if r["kind"] == "to_tk" else sorted(set(x["op"] for x in r["tk"]["cmds"]))
                flags = features(r["mc"]) if r["kind"] == "to_tk" else {}
                flags["classical-postprocessing"] = int(bool(r["tk"]["post"]["layers"]))
                sig = " ".join("%s=%d" % kv for kv in sorted(flags.items())) + " " + "%s boxes=%s | %s | tk: nq=%d nb=%d cmds=%s postsel=%s exc=%s" % (
                    r["kind"], ",".join(boxes), qadapt.describe_mixed(r["mc"]), r["tk"]["nq"], r["tk"]["nb"],
                    [(x["op"], x["qs"], x["bs"]) for x in r["tk"]["cmds"]], [(p["b"], p["v"]) for p in r["tk"]["postsel"]],
                    r["exc"] or r.get("counts_exc") or r.get("evalb_exc") or "-")
                rejected.append({"clause": clause, "sig": sig, "obs": {"kind": r["kind"], "mc": r["mc"], "tk": r["tk"], "src": r.get("src")}})
        # canary: drop the last command of an exported circuit that matters
        can = None
        for r, e in zip(judged, exp):
            if e["v"][0] == "ok" and r["kind"] == "to_tk" and any(x["op"] == "X" for x in r["tk"]["cmds"]) and r["tk"]["nb"] >= 1:
                bad = {"kind": "to_tk", "mc": r["mc"], "tk": json.loads(json.dumps(r["tk"])), "exc": ""}
                bad["tk"]["cmds"] = [x for x in bad["tk"]["cmds"] if x["op"] != "X"]
                cf = os.path.join(work, "canary.ndjson")
                core.write_ndjson(cf, [bad])
                got = core.validate("Trace_Tket", "Out", cf, work, constants=VC())["rows"][0]["v"][0]
                if got != "ok":
                    can = {"corrupted": "X commands removed from an exported circuit", "rejected_with": got}
                    break
        if can is None:
            raise core.Machinery("canary accepted or no candidate")
        cov = {"states": model["distinct"], "transitions": model["generated"],
               "traces_validated_against_impl": clauses["ok"],
               "samples": [{"kind": r["kind"], "circuit": qadapt.describe_mixed(r["mc"]),
                            "tk": [(x["op"], x["qs"], x["bs"]) for x in r["tk"]["cmds"]], "postsel": r["tk"]["postsel"]}
                           for r in judged[:3]],
               "exhaustive": False,
               "model": {"module": "MC_Tket", "MaxWeight": c["MaxWeight"], "MaxMLayers": c["MaxMLayers"]},
               "replay": {"circuits_in_model": n_all, "circuits_exported": sum(1 for r in recs if r["kind"] == "to_tk"),
                          "refused_NotImplementedError": sum(1 for r in recs if r["refused"] == 1),
                          "imports_too_large_to_judge": sum(1 for r in recs if r["refused"] == 2),
                          "imported": sum(1 for r in judged if r["kind"].startswith("from_tk")),
                          "imported_judged_on_state_vector": sum(1 for r in judged if r["kind"] == "from_tk_pure"),
                          "harness_assembled_tket_circuits": c["tk_random"],
                          "backend_runs": sum(1 for r in judged if r["kind"] == "to_tk" and r.get("mock") is not None)},
               "verdicts_by_clause": dict(clauses), "canary": can}
        return core.finish("C13", tier, seed, LEVEL, cov, rejected, t0, ASSUME)


def replay(path):
    with open(path) as f:
        t = json.load(f)["observation"]
    with core.workdir("C13-replay") as work:
        if t["kind"] == "to_tk":
            rec, _ = observe_to(t["mc"])
            rec["kind"] = "to_tk"
        elif t.get("src"):
            exported, real_tk = observe_to(t["src"])          # redo the export, then import the real object
            rec = observe_from(exported["tk"], real_tk, src=t["src"]) if real_tk is not None else exported
        else:
            rec = observe_from(t["tk"])
        tf = os.path.join(work, "one.ndjson")
        core.write_ndjson(tf, [{"kind": rec["kind"], "mc": rec["mc"], "tk": rec["tk"], "exc": rec["exc"]}])
        e = core.validate("Trace_Tket", "Out", tf, work, constants=VC())["rows"][0]
        v = e["v"][0]
        if v == "ok" and rec["kind"] == "to_tk" and not rec["refused"]:
            v = local_clauses(rec, e)
        print("replayed: %s" % v)
        if v != "ok":
            print("VIOLATION property=C13 replay=%s clause=%s" % (path, v))
            return 1
    return 0
