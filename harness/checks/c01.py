"""C01 - every diagram the library hands back is well-typed."""
import json
import os
import subprocess
import sys
from collections import Counter

from harness import core
from harness.checks import _diagapi
from harness.project import digest

LEVEL = "model_checking"
ASSUME = ["well-typedness and agreement of the layer view are evaluated by TLC (Diagrams!FirstFailing) on the "
          "projection of the real value; the projection reads dom, cod, boxes, offsets and .layers",
          "besides the API results, every diagram constructed inside the library during the replays and "
          "during the repository's own tests is observed through the DISCOPY_VERIF hook in "
          "monoidal.Diagram.__init__ (all diagram classes derive from it)",
          "bounded: diagrams of the exhaustive model, simulated histories, and what the repository's tests build"]


EXTRA_HOOK_ROWS = []


def collect_hooks(work, hook_files, coverage, rejected, tier):
    """keep the diagrams observed by the hook during the rigid machine's replays for the hook leg"""
    for path in hook_files:
        EXTRA_HOOK_ROWS.extend(core.read_ndjson(path))


def generic_ops(d, structural=True):
    """class-independent API calls on a real diagram; every diagram they construct is seen by the hook"""
    out = []

    from harness.machine import time_limit, CallTimeout, CALL_LIMIT

    def attempt(fn):
        try:
            with time_limit(CALL_LIMIT):
                r = fn()
            if hasattr(r, "offsets"):
                out.append(r)
        except (Exception, CallTimeout):
            pass
    attempt(lambda: d[::-1])
    attempt(lambda: d.dagger())
    attempt(lambda: d.dagger().dagger())
    attempt(lambda: d @ d)
    attempt(lambda: d >> d[::-1])
    attempt(lambda: d[::-1] >> d)
    n = len(d)
    for i in range(n + 1):
        for j in range(i, n + 1):
            attempt(lambda: d[i:j])
    for i in range(n):
        attempt(lambda: d[i])
    for i in range(n - 1):
        attempt(lambda: d.interchange(i, i + 1))
        attempt(lambda: d.interchange(i + 1, i, left=True))
    attempt(lambda: d.normal_form())
    attempt(lambda: d.foliation().flatten())
    # structural diagrams of the class on the types of d (nested cups and caps, transposes, block swaps, permutations)
    cls = type(d)
    for t in ((d.dom, d.cod) if structural else ()):
        if len(t) > 3:
            continue
        attempt(lambda: cls.cups(t, t.r))
        attempt(lambda: cls.caps(t, t.l))
        attempt(lambda: cls.cups(t.l, t))
        attempt(lambda: cls.swap(t, d.cod))
        attempt(lambda: cls.swap(d.dom, t) >> cls.swap(t, d.dom))
        attempt(lambda: cls.permutation(list(range(len(t)))[::-1], t))
    if structural and len(d.dom) + len(d.cod) <= 4:
        attempt(lambda: d.transpose())
        attempt(lambda: d.transpose(left=True))
        attempt(lambda: d.transpose().transpose(left=True))
    return out


def class_legs(work, tier, seed):
    """C01 'in every diagram class': diagrams of the circuit, zx, tensor, biclosed and cartesian classes are built from
    the states of the other checks' TLC models and put through the generic API; the hook records what is constructed."""
    from harness import classgen
    from harness.project import DiagramSink
    sink = DiagramSink().install()
    counts = {}
    try:
        for cls, descs in classgen.pools(work, tier, seed).items():
            done = 0
            for i, desc in enumerate(descs):
                try:
                    d = classgen.build(desc)
                except Exception:
                    continue
                if d is not None:
                    done += len(generic_ops(d, structural=(i % 3 == 0)))
            counts[cls] = done
        # rigid diagrams with snakes the bounded machine does not reach: nested snakes, loops and snakes over the
        # self-dual object, and wrong-way pairs (Cup and Cap accept both orientations of an adjunction: a cap and a cup
        # that meet on one wire but leave different types on either side are not a snake)
        from harness.checks import c07
        from harness.adapters.free import RigidAdapter
        A = RigidAdapter()
        K = lambda kind, dom, cod, id_=0: {"id": id_, "kind": kind, "dom": dom, "cod": cod, "dg": 0}
        xl, x, xr = [1, -1], [1, 0], [1, 1]
        wrong = [{"dom": [xr], "cod": [xl], "boxes": [K(3, [], [xl, x]), K(2, [x, xr], [])], "offs": [0, 1]},
                 {"dom": [xr], "cod": [xl], "boxes": [K(0, [xr], [xr], 7), K(3, [], [xl, x]), K(2, [x, xr], [])], "offs": [0, 0, 1]},
                 {"dom": [xl], "cod": [xr], "boxes": [K(3, [], [x, xr]), K(2, [xl, x], [])], "offs": [1, 0]}]
        done = 0
        for dabs in c07.nested_family()[::4] + c07.self_dual_family() + wrong:
            try:
                d = A.build(dabs, 0)
            except Exception:
                continue
            done += len(generic_ops(d, structural=False))
        counts["rigid-snakes"] = done
    finally:
        sink.uninstall()
    EXTRA_HOOK_ROWS.extend(sink.seen.values())
    return counts, sink.total


def hook_leg(work, hook_files, coverage, rejected, tier):
    """Validate every distinct diagram seen by hook H2: during the replays, and during the
    repository's tests (and doctests in the thorough tier)."""
    counts, total = class_legs(work, tier, coverage.get("_seed_for_classes", 0))
    coverage.pop("_seed_for_classes", None)
    coverage["class_legs"] = {"api_results_by_class": counts, "diagrams_constructed": total}
    suite_out = os.path.join(work, "suite-hook.ndjson")
    cmd = [sys.executable, "-m", "harness.suite_hook", suite_out] + (["doctests"] if tier == "thorough" else [])
    p = subprocess.run(cmd, stdout=subprocess.PIPE, stderr=subprocess.PIPE, text=True, timeout=1800)
    info = None
    for line in p.stdout.splitlines()[::-1]:
        if line.startswith("{"):
            info = json.loads(line)
            break
    if info is None or not os.path.exists(suite_out):
        raise core.Machinery("suite hook run failed: %s %s" % (p.stdout[-2000:], p.stderr[-2000:]))
    seen, rows = set(), []
    by_cls = Counter()
    extra = os.path.join(work, "rigid-hook.ndjson")
    core.write_ndjson(extra, EXTRA_HOOK_ROWS)
    for path in hook_files + [extra, suite_out]:
        origin = "suite" if path == suite_out else "replay"
        for rec in core.read_ndjson(path):
            h = digest(rec)
            if h in seen:
                continue
            seen.add(h)
            rec["origin"] = origin
            rows.append(rec)
            by_cls[rec["cls"]] += 1
    tf = os.path.join(work, "hook-all.ndjson")
    core.write_ndjson(tf, rows)
    val = core.validate("Trace_Hook", "FirstFailing", tf, work)
    clauses = Counter()
    for rec, v in zip(rows, val["verdicts"]):
        clauses[v[0]] += 1
        if v[0] != "ok":
            rejected.append({"clause": v[0], "sig": "hook cls=%s origin=%s %s" %
                             (rec["cls"], rec["origin"], _diagapi.describe(rec)), "obs": rec})
    # canary: a diagram with a shifted layer view must be rejected
    bad = None
    for rec in rows:
        if len(rec["boxes"]) >= 1 and rec["layers"] and rec["layers"][0]["right"]:
            bad = json.loads(json.dumps(rec))
            bad["layers"][0]["right"] = bad["layers"][0]["right"][1:]
            break
    if bad is None:
        raise core.Machinery("no hook observation for the canary")
    cf = os.path.join(work, "hook-canary.ndjson")
    core.write_ndjson(cf, [bad])
    got = core.validate("Trace_Hook", "FirstFailing", cf, work)["verdicts"][0][0]
    if got == "ok":
        raise core.Machinery("hook canary accepted")
    coverage["hook"] = {"distinct_diagrams_validated": len(rows), "by_class": dict(by_cls),
                        "suite": info, "verdicts_by_clause": dict(clauses),
                        "canary": {"corrupted": "right wires of the first layer", "rejected_with": got}}
    coverage["traces_validated_against_impl"] += clauses["ok"]


def run(tier, seed, t0):
    # the rigid API machine first (cups, caps, swaps, adjoint types); its hook observations join the hook leg
    covr, rejr = _diagapi.run("C01", "J01", tier, seed, t0, cls="rigid",
                              invariants=["InvWellTyped", "InvResultsWellTyped"], extra_hook=collect_hooks)
    cov, rej = _diagapi.run("C01", "J01", tier, seed, t0,
                            invariants=["InvWellTyped", "InvResultsWellTyped"], extra_hook=hook_leg)
    covc, rejc = _diagapi.run("C01", "J01", tier, seed, t0, cls="cat", invariants=["InvWellTyped", "InvResultsWellTyped"])
    cov["cat_machine"] = {k: covc[k] for k in ("states", "transitions", "traces_validated_against_impl", "model", "replay",
                                               "verdicts_by_clause", "canary")}
    cov["states"] += covc["states"]
    cov["transitions"] += covc["transitions"]
    cov["traces_validated_against_impl"] += covc["traces_validated_against_impl"]
    rejr = rejr + rejc
    cov["rigid_machine"] = {k: covr[k] for k in ("states", "transitions", "traces_validated_against_impl", "model", "replay",
                                                 "verdicts_by_clause", "canary")}
    cov["states"] += covr["states"]
    cov["transitions"] += covr["transitions"]
    cov["traces_validated_against_impl"] += covr["traces_validated_against_impl"]
    return core.finish("C01", tier, seed, LEVEL, cov, rej + rejr, t0, ASSUME)


def replay(path):
    with open(path) as f:
        rp = json.load(f)
    if "call" not in (rp.get("observation") or {}):
        # a hook observation: re-judge the recorded projection
        with core.workdir("C01-replay") as work:
            tf = os.path.join(work, "one.ndjson")
            core.write_ndjson(tf, [rp["observation"]])
            v = core.validate("Trace_Hook", "FirstFailing", tf, work)["verdicts"][0][0]
            print("re-judged hook observation: %s" % v)
            if v != "ok":
                print("VIOLATION property=C01 replay=%s clause=%s" % (path, v))
                return 1
            return 0
    return _diagapi.replay_one("C01", "J01", path)
