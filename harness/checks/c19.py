"""C19 - cartesian diagrams compute the function they draw."""
import itertools
import json
import os
from collections import Counter

from harness import core, tlaval

LEVEL = "model_checking"
ASSUME = ["functions are drawn from the finite menu of spec/Cartesian.tla (arities 0..3 -> 0..3), defined "
          "identically in the adapter below; inputs range over {-1, 0, 2, 7} the opaque value None (code -1000) and, for diagrams without arithmetic, the list [1, 2] as one value (code -1001): "
          "copied, swapped, discarded and tested like any value; arithmetic on it must raise TypeError)",
          "bounded: all cartesian diagrams within the model constants (sampled for replay in the quick tier)"]
CONST = {"quick": {"MaxBoxes": 3, "MaxWidth": 3, "replay": 2500, "tuples": 6, "N": 4},
         "thorough": {"MaxBoxes": 4, "MaxWidth": 3, "replay": 20000, "tuples": 8, "N": 5}}
INPUTS = (-1, 0, 2, 7)
NONE = -1000          # code of the opaque value (Python None) in the spec and in recorded tuples
LISTV = -1001         # code of the list [1, 2] travelling as ONE value on one wire (only fed to diagrams without arithmetic:
                      # list + list would not raise)
SAFE = {1, 5, 6, 7, 10, 11, 13, 14, 15}


def dec(x):
    return None if x == NONE else [1, 2] if x == LISTV else x


def enc(v):
    return NONE if v is None else LISTV if isinstance(v, list) and v == [1, 2] else int(v)
W = [1, 0]

ARITY = {1: (0, 1), 2: (1, 1), 3: (2, 1), 4: (1, 2), 5: (1, 2), 6: (2, 2), 7: (1, 0), 8: (2, 1),
         9: (3, 3), 10: (0, 0), 11: (0, 2), 12: (2, 3), 13: (0, 1), 14: (1, 1), 15: (1, 2)}
FUN = {
    1: lambda: 7, 2: lambda x: -x, 3: lambda x, y: x + y, 4: lambda x: (x, x + 1),
    5: lambda *x: x + x, 6: lambda x, y: (y, x), 7: lambda *x: (), 8: lambda x, y: x - y,
    9: lambda a, b, c: tuple(sorted((a, b, c))), 10: lambda: (), 11: lambda: (1, 2),
    12: lambda x, y: (x, y, 2 * x + y),
    13: lambda: None, 14: lambda x: 1 if x is None else 0, 15: lambda x: (x, None),
}
BUILTIN = {"copy": 5, "swap": 6, "discard": 7}


def boxes():
    from discopy import cartesian
    out = {k: cartesian.Box("b%d" % k, ARITY[k][0], ARITY[k][1], FUN[k]) for k in ARITY}
    out[5], out[6], out[7] = cartesian.COPY, cartesian.SWAP, cartesian.DISCARD
    return out


def boxes_shared_names():
    """the same functions, but every box of a given arity carries the same name (anonymous lambdas all print alike):
    what a box computes is its function, not its name"""
    from discopy import cartesian
    out = {k: cartesian.Box("op", ARITY[k][0], ARITY[k][1], FUN[k]) for k in ARITY}
    out[5], out[6], out[7] = cartesian.COPY, cartesian.SWAP, cartesian.DISCARD
    return out


def proj(d):
    def bid(b):
        return BUILTIN[b.name] if b.name in BUILTIN else int(b.name[1:])
    return {"dom": [W] * len(d.dom), "cod": [W] * len(d.cod),
            "boxes": [{"id": bid(b), "kind": 0, "dom": [W] * len(b.dom), "cod": [W] * len(b.cod), "dg": 0}
                      for b in d.boxes], "offs": list(d.offsets)}


def build(dabs, B, how):
    from discopy import cartesian
    if how == 0:
        return cartesian.Diagram(len(dabs["dom"]), len(dabs["cod"]), [B[b["id"]] for b in dabs["boxes"]],
                                 list(dabs["offs"]))
    out = cartesian.Id(len(dabs["dom"]))
    for b, o in zip(dabs["boxes"], dabs["offs"]):
        box = B[b["id"]]
        out = out >> cartesian.Id(o) @ box @ cartesian.Id(len(out.cod) - o - len(box.dom))
    return out


def call(d, xs):
    from discopy.cartesian import tuplify
    try:
        return "", [enc(v) for v in tuplify(d(*[dec(x) for x in xs]))]
    except Exception as e:
        return type(e).__name__, []


EMPTY = {"dom": [], "cod": [], "boxes": [], "offs": []}


def row(kind, xs, exc, res, d=None, l=0, d2=None, res2=None, raw_eq=1):
    return {"kind": kind, "xs": list(xs), "exc": exc, "res": res, "d": d or EMPTY, "l": l,
            "d2": d2 or EMPTY, "res2": res2 if res2 is not None else [], "raw_eq": raw_eq}


def raw_equal(lhs, rhs, xs):
    """python == between what the two diagrams return (not normalised to tuples); 1 when either call raises"""
    args = [dec(x) for x in xs]
    try:
        return int(lhs(*args) == rhs(*args))
    except Exception:
        return 1


def observations(states, c, rnd):
    from discopy import cartesian
    B, BS = boxes(), boxes_shared_names()
    rows = []
    for k, dabs in enumerate(states):
        real = build(dabs, BS, 1) if k % 3 == 2 else build(dabs, B, k % 2)
        n = len(dabs["dom"])
        safe = all(b["id"] in SAFE for b in dabs["boxes"])
        tuples = list(itertools.product(INPUTS + ((NONE, LISTV) if safe else (NONE,)), repeat=n))
        for xs in (tuples if len(tuples) <= c["tuples"] else rnd.sample(tuples, c["tuples"])):
            exc, res = call(real, xs)
            rows.append(dict(row("call", xs, exc, res, d=dabs), shared=int(k % 3 == 2)))
    N = c["N"]
    for l in range(N + 1):
        for r in range(N + 1 - l):
            for xs in rnd.sample(list(itertools.product(INPUTS + (NONE, LISTV), repeat=l + r)), min(6, 6 ** (l + r))):
                exc, res = call(cartesian.Swap(l, r), xs)
                rows.append(row("swap", xs, exc, res, l=l))
    for n in range(N + 1):
        for xs in rnd.sample(list(itertools.product(INPUTS + (NONE, LISTV), repeat=n)), min(8, 6 ** n)):
            exc, res = call(cartesian.Copy(n), xs)
            rows.append(row("copy", xs, exc, res))
            exc, res = call(cartesian.Discard(n), xs)
            rows.append(row("discard", xs, exc, res))
    # naturality squares on code values
    for f in B:
        nf, mf = ARITY[f]
        for g in B:
            ng, mg = ARITY[g]
            lhs = B[f] @ B[g] >> cartesian.Swap(mf, mg)
            rhs = cartesian.Swap(nf, ng) >> B[g] @ B[f]
            for xs in rnd.sample(list(itertools.product(INPUTS + (NONE,), repeat=nf + ng)), min(3, 5 ** (nf + ng))):
                e1, r1 = call(lhs, xs)
                e2, r2 = call(rhs, xs)
                rows.append(row("square", xs, e1 or e2, r1, d=proj(lhs), d2=proj(rhs), res2=r2, raw_eq=raw_equal(lhs, rhs, xs)))
        for lhs, rhs in ((B[f] >> cartesian.Copy(mf), cartesian.Copy(nf) >> B[f] @ B[f]),
                         (B[f] >> cartesian.Discard(mf), cartesian.Discard(nf))):
            for xs in rnd.sample(list(itertools.product(INPUTS + (NONE,), repeat=nf)), min(4, 5 ** nf)):
                e1, r1 = call(lhs, xs)
                e2, r2 = call(rhs, xs)
                rows.append(row("square", xs, e1 or e2, r1, d=proj(lhs), d2=proj(rhs), res2=r2, raw_eq=raw_equal(lhs, rhs, xs)))
    # comonoid and symmetry axioms against the identity, at every width (equalities of what is returned)
    for n in range(N + 1):
        for lhs in (cartesian.Copy(n) >> cartesian.Id(n) @ cartesian.Discard(n), cartesian.Copy(n) >> cartesian.Discard(n) @ cartesian.Id(n)) + \
                tuple(cartesian.Swap(a, n - a) >> cartesian.Swap(n - a, a) for a in range(n + 1)):
            rhs = cartesian.Id(n)
            for xs in rnd.sample(list(itertools.product(INPUTS + (NONE, LISTV), repeat=n)), min(5, 6 ** n)):
                e1, r1 = call(lhs, xs)
                e2, r2 = call(rhs, xs)
                rows.append(row("square", xs, e1 or e2, r1, d=proj(lhs), d2=proj(rhs), res2=r2, raw_eq=raw_equal(lhs, rhs, xs)))
    return rows


VC = {"MaxBoxes": 0, "MaxWidth": 0, "Inputs": "<- InputsV"}


def run(tier, seed, t0):
    c = CONST[tier]
    with core.workdir("C19") as work:
        model = core.run_model("MC_Cartesian", work,
                               constants={"MaxBoxes": c["MaxBoxes"], "MaxWidth": c["MaxWidth"], "Inputs": "<- InputsV"},
                               invariants=["InvArity", "InvNatural"], dump=True)
        states = [st["d"] for st in tlaval.read_dump(model["dump"])]
        os.remove(model["dump"])
        n_all = len(states)
        rnd = core.rng(seed, "C19")
        if len(states) > c["replay"]:
            states = rnd.sample(states, c["replay"])
        rows = observations(states, c, rnd)
        tf = os.path.join(work, "trace.ndjson")
        core.write_ndjson(tf, rows)
        val = core.validate("Trace_Cartesian", "J19", tf, work, constants=VC)
        rejected, clauses = core.track([]), Counter()
        for t, v in zip(rows, val["verdicts"]):
            clauses[v[0]] += 1
            if v[0] != "ok":
                rejected.append({"clause": v[0], "sig": "kind=%s xs=%s exc=%s boxes=%s offs=%s" % (
                    t["kind"], t["xs"], t["exc"] or "-", [b["id"] for b in t["d"]["boxes"]], t["d"]["offs"]),
                    "obs": t})
        can = None
        for t, v in zip(rows, val["verdicts"]):
            if v[0] == "ok" and t["kind"] == "call" and len(t["res"]) >= 2 and t["res"][0] != t["res"][1]:
                bad = json.loads(json.dumps(t))
                bad["res"][0], bad["res"][1] = bad["res"][1], bad["res"][0]
                cf = os.path.join(work, "canary.ndjson")
                core.write_ndjson(cf, [bad])
                got = core.validate("Trace_Cartesian", "J19", cf, work, constants=VC)["verdicts"][0][0]
                if got == "ok":
                    raise core.Machinery("canary accepted")
                can = {"corrupted": "two outputs exchanged", "rejected_with": got}
                break
        if can is None:
            raise core.Machinery("no canary candidate")
        cov = {"states": model["distinct"], "transitions": model["generated"],
               "traces_validated_against_impl": clauses["ok"],
               "samples": [{"kind": t["kind"], "boxes": [b["id"] for b in t["d"]["boxes"]], "offs": t["d"]["offs"],
                            "xs": t["xs"], "res": t["res"]} for t in (rows[0], rows[len(rows) // 3], rows[-1])],
               "exhaustive": len(states) == n_all,
               "model": {"module": "MC_Cartesian", "MaxBoxes": c["MaxBoxes"], "MaxWidth": c["MaxWidth"],
                         "invariants": ["InvArity", "InvNatural"], "wall_s": model["wall_s"]},
               "replay": {"states_in_model": n_all, "states_replayed": len(states), "observations": len(rows),
                          "by_kind": dict(Counter(t["kind"] for t in rows))},
               "verdicts_by_clause": dict(clauses), "canary": can}
        return core.finish("C19", tier, seed, LEVEL, cov, rejected, t0, ASSUME)


def replay(path):
    with open(path) as f:
        t = json.load(f)["observation"]
    B = boxes()
    from discopy import cartesian
    with core.workdir("C19-replay") as work:
        if t["kind"] in ("call", "square"):
            real = build(t["d"], boxes_shared_names(), 1) if t.get("shared") else build(t["d"], B, 0)
            exc, res = call(real, t["xs"])
            t2 = row("call", t["xs"], exc, res, d=t["d"])
        elif t["kind"] == "swap":
            exc, res = call(cartesian.Swap(t["l"], len(t["xs"]) - t["l"]), t["xs"])
            t2 = row("swap", t["xs"], exc, res, l=t["l"])
        else:
            exc, res = call(getattr(cartesian, t["kind"].capitalize())(len(t["xs"])), t["xs"])
            t2 = row(t["kind"], t["xs"], exc, res)
        tf = os.path.join(work, "one.ndjson")
        core.write_ndjson(tf, [t2])
        v = core.validate("Trace_Cartesian", "J19", tf, work, constants=VC)["verdicts"][0][0]
        print("replayed: verdict=%s" % v)
        if v != "ok":
            print("VIOLATION property=C19 replay=%s clause=%s" % (path, v))
            return 1
    return 0
