"""C03 - equality is structural, hash-consistent and printable (free categories: cat, monoidal, rigid)."""
import json
import os
from collections import Counter, defaultdict

from harness import core, machine, tlaval
from harness.checks import _diagapi

LEVEL = "model_checking"
ASSUME = ["the abstract value of an object is its projection (class, dom, cod, boxes with name / dagger flag / data, "
          "offsets; atoms with winding); TLC decides equality of projections and judges every recorded pair",
          "data payloads range over None, a dict of lists of ints, a nested list of ints (a *string* payload makes cat.Box.__init__ recurse forever: recorded in DESIGN as an observation outside the listed properties)",
          "repr is evaluated in the namespace of the module defining the value's class, extended with the modules "
          "defining the classes of its parts (a rigid sum prints as monoidal's Sum)",
          "pairs: all pairs of the descriptors of MC_Values (objects with windings, types, boxes), and for diagrams: "
          "the same model state built along different paths (constructor, composition, simulated API histories, "
          "double dagger), against each other and against other states of the same type",
          "types: every type of MC_Types (atoms with windings -2..2, length <= 3) as rigid.Ty and, without windings, as "
          "monoidal.Ty; tensor, l, r, <<, >>, slices, reversal, powers, indexing, count and z judged by Trace_Types"]
DATA = {0: None, 1: {"a": [1, 2]}, 2: [1, [2, 3]]}
# what the abstract payload indices 1 and 2 stand for rotates with the pair: ordinary values, and values that are falsy
# without being None (a payload of 0 is a payload; only None means "no data")
DATA_TABLES = [DATA, {0: None, 1: 0, 2: []}, {0: None, 1: False, 2: {}}, {0: None, 1: 0.0, 2: ()}, {0: None, 1: [0], 2: 0j + 2}]
NAMES = {1: "x", 2: "y"}
# what the two abstract names stand for rotates with the pair as well: distinct names that print like structure (the
# adjoint of the other name, a tensor of names, the unit) must stay distinct from the structure they resemble
NAME_TABLES = [NAMES, {1: "x", 2: "x.l"}, {1: "x.r", 2: "x"}, {1: "x", 2: "x @ x"}, {1: "Ty()", 2: "x.l.l"}, {1: 1, 2: "1"}]


def modules(cls):
    from discopy import cat, monoidal, rigid
    return {"cat": cat, "monoidal": monoidal, "rigid": rigid}[cls]


def namespace(cls):
    from discopy import cat, monoidal, rigid
    ns = dict(vars(cat))
    if cls in ("monoidal", "rigid"):
        ns.update(vars(monoidal))
    if cls == "rigid":
        ns.update(vars(rigid))
    return ns


def build_desc(cls, d, tab=0):
    """Real value for a descriptor of MC_Values, or None when the class has no such value."""
    DATA = DATA_TABLES[tab % len(DATA_TABLES)]
    NAMES = NAME_TABLES[tab % len(NAME_TABLES)]
    m = modules(cls)
    if cls != "rigid" and (d["z"] != 0 or any(a[1] != 0 for a in d["dom"] + d["cod"])):
        return None

    def ob(a):
        return m.Ob(NAMES[a[0]], a[1]) if cls == "rigid" else m.Ob(NAMES[a[0]])
    if d["k"] == "ob":
        return ob([d["name"], d["z"]])
    if d["k"] == "ty":
        if cls == "cat":
            return None
        return m.Ty(*[ob(a) for a in d["dom"]])
    if d["k"] == "zero":
        if cls == "cat":
            if len(d["dom"]) != 1 or len(d["cod"]) != 1:
                return None
            return m.Sum([], ob(d["dom"][0]), ob(d["cod"][0]))
        return m.Diagram.sum([], m.Ty(*[ob(a) for a in d["dom"]]), m.Ty(*[ob(a) for a in d["cod"]]))
    if d["k"] == "box":
        if cls == "cat":
            if len(d["dom"]) != 1 or len(d["cod"]) != 1:
                return None
            dm, cd = ob(d["dom"][0]), ob(d["cod"][0])
        else:
            dm, cd = m.Ty(*[ob(a) for a in d["dom"]]), m.Ty(*[ob(a) for a in d["cod"]])
        if d["dg"]:
            return m.Box("b%d" % d["name"], cd, dm, data=DATA[d["data"]]).dagger()
        return m.Box("b%d" % d["name"], dm, cd, data=DATA[d["data"]])
    raise ValueError(d)


def roundtrip(v, cls):
    try:
        return 1 if eval(repr(v), namespace(cls)) == v else 0
    except Exception:
        return 0


def observe(a, b, pa, pb, cls, extra=None):
    rec = {"cls": cls, "pa": pa, "pb": pb, "exc": "", "ab": 0, "ba": 0, "hab": 0, "rta": 2, "rtb": 2,
           "lk": 2, "wrap": 2, "tr": 2}
    try:
        rec["ab"], rec["ba"] = int(a == b), int(b == a)
        rec["hab"] = int(hash(a) == hash(b))
        rec["rta"], rec["rtb"] = roundtrip(a, cls), roundtrip(b, cls)
        if rec["ab"]:
            rec["lk"] = int({a: 1}.get(b) == 1)
    except Exception as e:
        rec["exc"] = type(e).__name__
    if extra:
        rec.update(extra)
    return rec


def proj_value(v, names):
    """Projection of a diagram / sum for pair comparison (class-independent structure)."""
    from harness.project import proj_ty
    if hasattr(v, "terms"):
        return {"k": "sum", "dom": proj_ty(v.dom, names), "cod": proj_ty(v.cod, names),
                "terms": [proj_value(t, names) for t in v.terms]}
    return {"k": "diagram", "dom": proj_ty(v.dom, names), "cod": proj_ty(v.cod, names),
            "boxes": [{"name": getattr(b, "name", ""), "kind": type(b).__name__, "dom": proj_ty(b.dom, names),
                       "cod": proj_ty(b.cod, names), "dg": int(bool(getattr(b, "_dagger", False))),
                       "data": repr(getattr(b, "_data", None))} for b in v.boxes],
            "offs": list(v.offsets)}


# ---------------------------------------------------------------- the algebra of types (Types.tla)
TNAMES = {1: "x", 2: "y"}


def _ty_mk(cls, atoms):
    from discopy import monoidal, rigid
    if cls == "rigid":
        return rigid.Ty(*[rigid.Ob(TNAMES[a[0]], a[1]) for a in atoms])
    return monoidal.Ty(*[monoidal.Ob(TNAMES[a[0]]) for a in atoms])


def _ty_pj(v):
    objs = v.objects if hasattr(v, "objects") else [v]
    return [[{"x": 1, "y": 2}[o.name], int(getattr(o, "z", 0) or 0)] for o in objs]


def type_call(cls, t, op, i, j, a):
    """one operation on the real type built from the atoms t; the record judged by Trace_Types!JT"""
    from discopy import monoidal, rigid
    NONE = -1000
    ns = dict(vars(monoidal))
    if cls == "rigid":
        ns.update(vars(rigid))
    T, A1, n = _ty_mk(cls, t), _ty_mk(cls, [a]), len(t)
    rec = {"cls": cls, "t": t, "op": op, "i": i, "j": j, "a": a, "res": [], "exc": "", "eq": 0, "hasheq": 0, "rt": 0,
           "cnt": 0, "zz": -99}
    try:
        res = {"tensorR": lambda: T @ A1, "tensorL": lambda: A1 @ T, "l": lambda: T.l, "r": lambda: T.r,
               "lshift": lambda: T << A1, "rshift": lambda: T >> A1, "rev": lambda: T[::-1], "pow": lambda: T ** i,
               "slice": lambda: T[(None if i == NONE else i):(None if j == NONE else j)],
               "index": lambda: T[i]}[op]()
        rec["res"] = _ty_pj(res)
        if op == "index":
            twin = _ty_mk(cls, rec["res"])[0]
            rec["rt"] = 1
        else:
            twin = _ty_mk(cls, rec["res"])
            rec["rt"] = int(eval(repr(res), ns) == res)
        rec["eq"] = int(res == twin and twin == res and not (res != twin))
        rec["hasheq"] = int(hash(res) == hash(twin))
        rec["cnt"] = int(T.count(A1))
        if cls == "rigid":
            try:
                rec["zz"] = int(T.z)
            except TypeError:
                rec["zz"] = -99
        else:
            rec["zz"] = 0 if n == 1 else -99
    except Exception as e:
        rec["exc"] = type(e).__name__
    return rec


def types_leg(work, tier, rnd, rejected, clauses):
    """every state of MC_Types rebuilt as rigid.Ty / monoidal.Ty, every operation of the menu applied, results judged
    by Trace_Types (value, ==, hash and repr against the constructor-built type with the same atoms)"""
    from discopy import monoidal, rigid
    quick = tier == "quick"
    model = core.run_model("MC_Types", work, constants={"MaxLen": 3 if quick else 4, "ZMax": 2}, invariants=["InvAdjoints", "InvSlices"],
                           view="View", dump=True, tag="_types")
    states = [st["t"] for st in tlaval.read_dump(model["dump"])]
    os.remove(model["dump"])
    n_states = len(states)
    if len(states) > (500 if quick else 5000):
        states = rnd.sample(states, 500 if quick else 5000)
    NONE = -1000
    rows = []
    atoms_all = [[n, z] for n in (1, 2) for z in (-1, 0, 1)]
    for t in states:
        for cls in ("rigid", "monoidal"):
            if cls == "monoidal" and any(a[1] for a in t):
                continue
            n = len(t)
            calls = []
            for a in (atoms_all if cls == "rigid" else [[1, 0], [2, 0]]):
                calls += [("tensorR", 0, 0, a), ("tensorL", 0, 0, a)]
                if cls == "rigid":
                    calls += [("lshift", 0, 0, a), ("rshift", 0, 0, a)]
            if cls == "rigid":
                calls += [("l", 0, 0, [1, 0]), ("r", 0, 0, [1, 0])]
            calls += [("rev", 0, 0, [1, 0])] + [("pow", k, 0, [1, 0]) for k in (0, 1, 2)]
            rng_ = [NONE] + list(range(-(n + 1), n + 2))
            calls += [("slice", i, j, [1, 0]) for i in rng_ for j in rng_]
            calls += [("index", i, 0, [1, 0]) for i in range(-(n + 1), n + 1)]
            rows += [type_call(cls, t, op, i, j, a) for op, i, j, a in calls]
    tf = os.path.join(work, "types.ndjson")
    core.write_ndjson(tf, rows)
    val = core.validate("Trace_Types", "JT", tf, work, constants={"MaxLen": 0, "ZMax": 0}, timeout=3000)
    ok = 0
    for t, v in zip(rows, val["verdicts"]):
        clauses["types:" + v[0]] += 1
        ok += v[0] == "ok"
        if v[0] != "ok":
            rejected.append({"clause": v[0], "sig": "types cls=%s op=%s i=%s j=%s a=%s on %s exc=%s" % (
                t["cls"], t["op"], t["i"], t["j"], t["a"], t["t"], t["exc"] or "-"), "obs": {"types": 1, "row": t}})
    # canary: a left adjoint whose windings were not shifted must be rejected
    bad = next((dict(t) for t, v in zip(rows, val["verdicts"]) if v[0] == "ok" and t["op"] == "l" and len(t["t"]) >= 1), None)
    if bad is None:
        raise core.Machinery("no canary candidate in the types leg")
    bad["res"] = [[a[0], a[1] + 1] for a in bad["res"]]
    cf = os.path.join(work, "types-canary.ndjson")
    core.write_ndjson(cf, [bad])
    got = core.validate("Trace_Types", "JT", cf, work, constants={"MaxLen": 0, "ZMax": 0})["verdicts"][0][0]
    if got == "ok":
        raise core.Machinery("types canary accepted")
    return {"module": "MC_Types", "states": model["distinct"], "transitions": model["generated"], "types_in_model": n_states,
            "types_replayed": len(states), "calls": len(rows), "ok": ok, "by_op": dict(Counter(t["op"] for t in rows)),
            "refusals": dict(Counter(t["exc"] for t in rows if t["exc"])),
            "invariants": ["InvAdjoints", "InvSlices"], "canary": {"corrupted": "windings of a left adjoint", "rejected_with": got}}


def run(tier, seed, t0):
    rnd = core.rng(seed, "C03")
    quick = tier == "quick"
    with core.workdir("C03") as work:
        # part A: descriptor pairs generated by TLC
        model = core.run_model("MC_Values", work, constants={"ZMax": 1, "MaxLen": 1 if quick else 2},
                               invariants=["InvEquivalence"], dump=True, timeout=3000)
        pairs = [st["p"] for st in tlaval.read_dump(model["dump"])]
        os.remove(model["dump"])
        n_pairs_model = len(pairs)
        same_kind = [p for p in pairs if p[0]["k"] == p[1]["k"]]
        # keep all equal pairs and near misses (differ in one field), sample the rest
        def near(p):
            return sum(1 for k in p[0] if p[0][k] != p[1][k]) <= 1
        keep = [p for p in same_kind if near(p)]
        rest = [p for p in same_kind if not near(p)]
        keep += rnd.sample(rest, min(len(rest), 4000 if quick else 20000))
        rows = []
        n_bubbles = 0
        for cls in ("cat", "monoidal", "rigid"):
            for pi, (a_d, b_d) in enumerate(keep):
                tab = pi % (len(DATA_TABLES) * len(NAME_TABLES))      # 5 and 6 are coprime: every combination occurs
                a, b = build_desc(cls, a_d, tab), build_desc(cls, b_d, tab)
                if a is None or b is None:
                    continue
                extra = {"tab": tab}
                if a_d["k"] == "box" and a_d == b_d:
                    m = modules(cls)
                    try:
                        one = m.Arrow(a.dom, a.cod, [a]) if cls == "cat" else m.Diagram(a.dom, a.cod, [a], [0])
                        extra["wrap"] = int(one == a and a == one and hash(one) == hash(a))
                    except Exception:
                        extra["wrap"] = 0
                if a_d["k"] == "box" and cls != "cat":
                    # dictionary lookup through a functor's mapping
                    m = modules(cls)
                    try:
                        marker = m.Box("img", a.dom, a.cod)
                        F = m.Functor(ob=lambda t: t, ar={a if not a_d["dg"] else a.dagger(): marker})
                        got = F(b if not b_d["dg"] else b.dagger())
                        extra["lk"] = int(got == marker) if a == b else 2
                    except KeyError:
                        extra["lk"] = 0 if a == b else 2
                    except Exception:
                        extra["lk"] = 2
                rows.append(observe(a, b, a_d, b_d, cls, extra))
                if a_d["k"] == "box" and pi % 3 == 0:
                    # bubbles are boxes too: equal exactly when their insides and their own types are
                    try:
                        variants = lambda v: (v.bubble(), v.bubble(dom=v.cod, cod=v.dom))
                        for oa, ba in enumerate(variants(a)):
                            for ob_, bb in enumerate(variants(b)):
                                rows.append(observe(ba, bb, {"k": "bubble", "in": a_d, "o": oa if a_d["dom"] != a_d["cod"] else 0},
                                                    {"k": "bubble", "in": b_d, "o": ob_ if b_d["dom"] != b_d["cod"] else 0}, cls,
                                                    {"tab": tab, "oa": oa, "ob": ob_}))
                                n_bubbles += 1
                    except Exception:
                        pass
        n_desc = len(rows)
        # part B: diagrams built along different paths
        from harness.adapters.free import MonoidalAdapter, RigidAdapter
        mc = core.run_model("MC_Monoidal", work, constants={"MaxBoxes": 3, "MaxWidth": 2}, view="View", dump=True)
        mstates = [st["d"] for st in tlaval.read_dump(mc["dump"])]
        os.remove(mc["dump"])
        ev = core.run_model("MC_Eval", work, constants={"DimOf": "<- Dims23", "MaxBoxes": 2 if quick else 3, "MaxWidth": 3, "MaxCC": 2},
                            dump=True, tag="_gen")
        rstates = [st["d"] for st in tlaval.read_dump(ev["dump"])]
        os.remove(ev["dump"])
        with open(mc["lib"]) as f:
            lib = json.load(f)
        chains, _ = _diagapi.simulate("monoidal", work, _diagapi.TIERS[tier], seed)
        n_diag = 0
        for cls, A, states in (("monoidal", MonoidalAdapter(), mstates), ("rigid", RigidAdapter(), rstates)):
            groups = defaultdict(list)
            for d in states:
                groups[(json.dumps(d["dom"]), json.dumps(d["cod"]), len(d["boxes"]))].append(d)
            sample = rnd.sample(states, min(len(states), 400 if quick else 2500))
            for d in sample:
                a0, a1 = A.build(d, 0), A.build(d, 1)
                a2 = a0[::-1][::-1]
                pa = proj_value(a0, A.names)
                r = observe(a0, a1, pa, proj_value(a1, A.names), cls)
                try:
                    r["tr"] = int((not (a0 == a1 and a1 == a2)) or a0 == a2)
                except Exception:
                    r["tr"] = 0
                rows.append(r)
                rows.append(observe(a1, a2, proj_value(a1, A.names), proj_value(a2, A.names), cls))
                other = rnd.choice(groups[(json.dumps(d["dom"]), json.dumps(d["cod"]), len(d["boxes"]))])
                b0 = A.build(other, 1)
                rows.append(observe(a0, b0, pa, proj_value(b0, A.names), cls))
                # the same boxes at the same offsets next to a passive wire of another type: different diagrams
                try:
                    m = A.m
                    tx, ty_ = A.ty([[1, 0]]), A.ty([[2, 0]])
                    for wa, wb in ((a0 @ m.Id(tx), a1 @ m.Id(ty_)), (m.Id(tx) @ a0, m.Id(ty_) @ a1), (a0 @ m.Id(tx), a1 @ m.Id(tx)),
                                   (a0, a1 @ m.Id(m.Ty()))):
                        rows.append(observe(wa, wb, proj_value(wa, A.names), proj_value(wb, A.names), cls))
                except Exception:
                    pass
                # sums of the two
                try:
                    s1, s2 = a0 + b0, a1 + A.build(other, 0)
                    rows.append(observe(s1, s2, proj_value(s1, A.names), proj_value(s2, A.names), cls))
                    s3 = b0 + a0
                    rows.append(observe(s1, s3, proj_value(s1, A.names), proj_value(s3, A.names), cls))
                except Exception:
                    pass
                n_diag += 1
        # a box against the one-box diagrams that hold it: equal only to the one with the box's own domain and codomain
        # (not to the box whiskered by an extra wire on either side, whatever the offset)
        n_near = 0
        for cls, A in (("monoidal", MonoidalAdapter()), ("rigid", RigidAdapter())):
            m = A.m
            for babs in lib:
                if babs.get("kind", 0) != 0:
                    continue
                box = A.box(babs)
                for extra in (A.ty([[1, 0]]), A.ty([[2, 0]])):
                    for whisk in (box @ m.Id(extra), m.Id(extra) @ box,
                                  m.Diagram(box.dom, box.cod, [box], [0])):
                        for a, b in ((box, whisk), (whisk, box)):
                            rows.append(observe(a, b, proj_value(a, A.names), proj_value(b, A.names), cls))
                            n_near += 1
        # path twins: the value reached by a simulated API history vs the state built by the constructor
        A = MonoidalAdapter()
        R = machine.Replayer(A, lib)
        n_path = 0
        for ch in chains:
            real = A.build(ch["d"], 1)
            for c, exp in zip(ch["chain"], ch["expect"]):
                c = dict(c)
                c.update(p=0, ref=0)
                try:
                    res = R.apply(real, c)
                except Exception:
                    break
                twin = A.build(exp, 0)
                rows.append(observe(res, twin, proj_value(res, A.names), proj_value(twin, A.names), "monoidal"))
                real = res
                n_path += 1
        tf = os.path.join(work, "trace.ndjson")
        core.write_ndjson(tf, rows)
        VC = {"ZMax": 0, "MaxLen": 0}
        val = core.validate("Trace_Values", "JPair", tf, work, constants=VC, timeout=3000)
        rejected, clauses = core.track([]), Counter()
        for t, v in zip(rows, val["verdicts"]):
            clauses[v[0]] += 1
            if v[0] != "ok":
                rejected.append({"clause": v[0], "sig": "cls=%s payloads=%s kind=%s ab=%d ba=%d hab=%d rt=%d,%d a=%s b=%s" % (
                    t["cls"], t.get("tab", "-"), t["pa"].get("k"), t["ab"], t["ba"], t["hab"], t["rta"], t["rtb"],
                    json.dumps(t["pa"])[:160], json.dumps(t["pb"])[:160]), "obs": t})
        # canary: claim that two different boxes compare equal
        bad = None
        for t, v in zip(rows, val["verdicts"]):
            if v[0] == "ok" and t["ab"] == 0 and t["pa"].get("k") == "box":
                bad = dict(t, ab=1, ba=1, hab=1)
                break
        cf = os.path.join(work, "canary.ndjson")
        core.write_ndjson(cf, [bad])
        got = core.validate("Trace_Values", "JPair", cf, work, constants=VC)["verdicts"][0][0]
        if got == "ok":
            raise core.Machinery("canary accepted")
        tinfo = types_leg(work, tier, rnd, rejected, clauses)
        cov = {"states": model["distinct"] + mc["distinct"] + ev["distinct"] + tinfo["states"],
               "transitions": model["generated"] + mc["generated"] + ev["generated"] + tinfo["transitions"],
               "traces_validated_against_impl": clauses["ok"] + tinfo["ok"],
               "type_algebra": tinfo,
               "samples": [{k: t[k] for k in ("cls", "pa", "pb", "ab", "ba", "hab", "rta", "rtb", "lk", "wrap", "tr")}
                           for t in (rows[0], rows[n_desc // 2], rows[-1])],
               "exhaustive": False,
               "model": {"modules": ["MC_Values", "MC_Monoidal", "MC_Eval"], "descriptor_pairs_in_model": n_pairs_model},
               "replay": {"descriptor_pair_observations": n_desc, "bubble_pairs": n_bubbles, "diagram_states": n_diag, "path_twins": n_path,
                          "observations": len(rows), "equal_pairs": sum(1 for t in rows if t["ab"]),
                          "by_class": dict(Counter(t["cls"] for t in rows))},
               "verdicts_by_clause": dict(clauses),
               "canary": {"corrupted": "two different boxes reported equal", "rejected_with": got}}
        return core.finish("C03", tier, seed, LEVEL, cov, rejected, t0, ASSUME)


def replay(path):
    with open(path) as f:
        t = json.load(f)["observation"]
    if t.get("types"):
        r = t["row"]
        rec = type_call(r["cls"], r["t"], r["op"], r["i"], r["j"], r["a"])
        with core.workdir("C03-replay") as work:
            tf = os.path.join(work, "one.ndjson")
            core.write_ndjson(tf, [rec])
            v = core.validate("Trace_Types", "JT", tf, work, constants={"MaxLen": 0, "ZMax": 0})["verdicts"][0][0]
        print("replayed %s on %s: %s" % (r["op"], r["t"], v))
        if v != "ok":
            print("VIOLATION property=C03 replay=%s clause=%s" % (path, v))
            return 1
        return 0
    with core.workdir("C03-replay") as work:
        if t["pa"].get("k") in ("ob", "ty", "box"):
            a, b = build_desc(t["cls"], t["pa"], t.get("tab", 0)), build_desc(t["cls"], t["pb"], t.get("tab", 0))
            t = observe(a, b, t["pa"], t["pb"], t["cls"], {"tab": t.get("tab", 0)})
        elif t["pa"].get("k") == "bubble":
            a, b = build_desc(t["cls"], t["pa"]["in"], t.get("tab", 0)), build_desc(t["cls"], t["pb"]["in"], t.get("tab", 0))
            a = a.bubble(dom=a.cod, cod=a.dom) if t.get("oa") else a.bubble()
            b = b.bubble(dom=b.cod, cod=b.dom) if t.get("ob") else b.bubble()
            t = observe(a, b, t["pa"], t["pb"], t["cls"], {"tab": t.get("tab", 0), "oa": t.get("oa", 0), "ob": t.get("ob", 0)})
        tf = os.path.join(work, "one.ndjson")
        core.write_ndjson(tf, [t])
        v = core.validate("Trace_Values", "JPair", tf, work, constants={"ZMax": 0, "MaxLen": 0})["verdicts"][0][0]
        print("replayed: verdict=%s" % v)
        if v != "ok":
            print("VIOLATION property=C03 replay=%s clause=%s" % (path, v))
            return 1
    return 0
