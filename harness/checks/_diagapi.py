"""Shared pipeline of the diagram-API checks (C01, C02, C05, C06):
TLC model (exhaustive) -> dumped states and simulated behaviours -> replay on the real
library -> TLC trace validation with the property's judge -> canary -> verdicts."""
import copy
import glob
import json
import os
import subprocess
import sys
import time
from collections import Counter

from harness import core, machine, tlaval

CLASSES = {
    "monoidal": {"mc": "MC_Monoidal", "trace": "Trace_Monoidal",
                 "adapter": ("harness.adapters.free", "MonoidalAdapter")},
    "tie": {"mc": "MC_MonoidalTie", "trace": "Trace_MonoidalTie",
            "adapter": ("harness.adapters.free", "MonoidalAdapter")},
    "rigid": {"mc": "MC_Rigid", "trace": "Trace_Rigid",
              "adapter": ("harness.adapters.free", "RigidAdapter")},
    "cat": {"mc": "MC_Cat", "trace": "Trace_Cat",
            "adapter": ("harness.adapters.free", "CatAdapter")},
}
# the free category: paths in a four-edge graph (every state is replayed)
CAT_TIERS = {"quick": {"MaxBoxes": 4, "MaxWidth": 1, "states": 2000, "sim_num": 60, "sim_depth": 10, "sim_MaxBoxes": 7, "sim_MaxWidth": 1},
             "thorough": {"MaxBoxes": 6, "MaxWidth": 1, "states": 20000, "sim_num": 600, "sim_depth": 14, "sim_MaxBoxes": 9, "sim_MaxWidth": 1}}
# the two-generator machine (split, state and their daggers) is explored deeper: ties, longer normalisations
TIE_TIERS = {"quick": {"MaxBoxes": 5, "MaxWidth": 2, "states": 600, "sim_num": 40, "sim_depth": 8, "sim_MaxBoxes": 6, "sim_MaxWidth": 3,
                       "spiral_cups": 2, "spiral_walks": 2, "spiral_depth": 4},
             "thorough": {"MaxBoxes": 5, "MaxWidth": 3, "states": 1500, "sim_num": 150, "sim_depth": 10, "sim_MaxBoxes": 6, "sim_MaxWidth": 3,
                          "spiral_cups": 2, "spiral_walks": 2, "spiral_depth": 4}}
# bounds of the rigid machine (its signature has 13 generators and as many daggers)
RIGID_TIERS = {"quick": {"MaxBoxes": 2, "MaxWidth": 3, "states": 220, "sim_num": 80, "sim_depth": 8, "sim_MaxBoxes": 4, "sim_MaxWidth": 4},
               "thorough": {"MaxBoxes": 3, "MaxWidth": 3, "states": 1200, "sim_num": 500, "sim_depth": 12, "sim_MaxBoxes": 5, "sim_MaxWidth": 4}}

TIERS = {
    "quick":    {"MaxBoxes": 3, "MaxWidth": 2, "states": 320, "sim_num": 150, "sim_depth": 10,
                 "sim_MaxBoxes": 5, "sim_MaxWidth": 4, "spiral_cups": 4, "spiral_walks": 24, "spiral_depth": 12},
    "thorough": {"MaxBoxes": 3, "MaxWidth": 3, "states": 2000, "sim_num": 800, "sim_depth": 14,
                 "sim_MaxBoxes": 6, "sim_MaxWidth": 5, "spiral_cups": 5, "spiral_walks": 120, "spiral_depth": 25},
}

CANARY_OPS = {"C01": None, "C02": None, "C05": {"interchange"}, "C06": {"normal_form"}}

OPS = {
    "C01": None,   # everything
    "C02": {"gen", "ctor", "retype", "then", "thenSelf", "tensorR", "tensorL", "tensorSelf", "dagger", "slice", "rslice", "index"},
    "C05": {"interchange"},
    "C06": {"interchange", "normal_form", "normalize", "foliate"},
}


def get_adapter(cls):
    import importlib
    mod, name = CLASSES[cls]["adapter"]
    return getattr(importlib.import_module(mod), name)


def describe(d):
    return "%d->%d boxes=%s offs=%s" % (len(d["dom"]), len(d["cod"]),
                                        [("%d%s" % (b["id"], "+" if b["dg"] else "")) for b in d["boxes"]],
                                        d["offs"])


def sig_of(t, c):
    return "op=%s i=%s j=%s g=%s exc=%s on %s" % (c["op"], c["i"], c["j"], c["g"], c["exc"] or "-",
                                                 describe(t["d"]) if c["p"] == 0 else
                                                 "result of call %d on %s" % (c["p"], describe(t["d"])))


def simulate(cls, work, cfgt, seed):
    """TLC-generated behaviours (histories of API calls) as chains."""
    simdir = os.path.join(work, "sim")
    os.makedirs(simdir, exist_ok=True)
    res = core.run_model(CLASSES[cls]["mc"], work,
                         constants={"MaxBoxes": cfgt["sim_MaxBoxes"], "MaxWidth": cfgt["sim_MaxWidth"]},
                         workers=1, simulate="file=%s/tr,num=%d" % (simdir, cfgt["sim_num"]),
                         depth=cfgt["sim_depth"], seed=seed, tag="_sim", timeout=1200)
    chains = []
    for path in sorted(glob.glob(os.path.join(simdir, "tr_*"))):
        steps = tlaval.read_simulate(path)
        if len(steps) < 2:
            continue
        d0 = steps[0][1]["d"]
        chains.append({"d": d0, "chain": [s["last"] for _, s in steps[1:]],
                       "expect": [s["d"] for _, s in steps[1:]]})
        os.remove(path)
    return chains, res


def spiral_walks(work, max_cups, num, depth, seed):
    """TLC behaviours of MC_Spiral: random walks by admissible interchanges inside the class of a spiral;
    the exhaustive run checks canonicity of the normal form on the whole class in the model."""
    model = core.run_model("MC_Spiral", work, constants={"MaxCups": max_cups},
                           invariants=["InvWellTyped", "InvConnected", "InvCanonical"], timeout=1500)
    simdir = os.path.join(work, "simsp")
    os.makedirs(simdir, exist_ok=True)
    core.run_model("MC_Spiral", work, constants={"MaxCups": max_cups}, workers=1,
                   simulate="file=%s/tr,num=%d" % (simdir, num), depth=depth, seed=seed, tag="_sim")
    walks = []
    for path in sorted(glob.glob(os.path.join(simdir, "tr_*"))):
        steps = tlaval.read_simulate(path)
        if steps:
            walks.append({"d": steps[0][1]["d"], "walk": [s["d"] for _, s in steps[1:]]})
        os.remove(path)
    return walks, model


def filter_ops(files, ops, out, drop=()):
    """Concatenate history files keeping only the calls relevant to the property
    (calls referenced through p/ref by kept calls are kept too)."""
    n_hist = n_calls = 0
    with open(out, "w") as fo:
        for path in files:
            with open(path) as f:
                for line in f:
                    t = json.loads(line)
                    if drop:
                        t["calls"] = [c for c in t["calls"] if c["op"] not in drop]
                        if any(c["p"] or c["ref"] for c in t["calls"]):
                            t["calls"] = [c for c in t["calls"] if not (c["p"] or c["ref"])] if not ops else t["calls"]
                    if ops is not None:
                        keep = set(k for k, c in enumerate(t["calls"], 1) if c["op"] in ops)
                        changed = True
                        while changed:
                            changed = False
                            for k in list(keep):
                                c = t["calls"][k - 1]
                                for r in (c["p"], c["ref"]):
                                    if r and r not in keep:
                                        keep.add(r)
                                        changed = True
                        order = sorted(keep)
                        ren = {k: n + 1 for n, k in enumerate(order)}
                        calls = []
                        for k in order:
                            c = dict(t["calls"][k - 1])
                            c["p"] = ren.get(c["p"], 0)
                            c["ref"] = ren.get(c["ref"], 0)
                            calls.append(c)
                        t["calls"] = calls
                    if not t["calls"]:
                        continue
                    n_hist += 1
                    n_calls += len(t["calls"])
                    fo.write(json.dumps(t, sort_keys=True) + "\n")
    return n_hist, n_calls


def canary(trace_module, judge, trace_file, verdicts, work, ops):
    """Corrupt one accepted observation and require the judge to reject it."""
    rows = core.read_ndjson(trace_file)
    for t, v in zip(rows, verdicts):
        for k, (c, x) in enumerate(zip(t["calls"], v)):
            if x == "ok" and c["exc"] == "" and c["p"] == 0 and len(c["res"]["offs"]) >= 2 \
                    and (ops is None or c["op"] in ops) and c["op"] not in ("normalize",):
                bad = copy.deepcopy(t)
                bad["calls"] = [bad["calls"][k]]
                bad["calls"][0]["ref"] = 0
                bad["calls"][0]["res"]["offs"][-1] += 1
                path = os.path.join(work, "canary-%s.ndjson" % judge)
                core.write_ndjson(path, [bad])
                r = core.validate(trace_module, judge, path, work)
                got = r["verdicts"][0][0]
                if got == "ok":
                    raise core.Machinery("canary accepted: judge %s does not constrain the result" % judge)
                return {"corrupted": "last offset of the result of %s" % c["op"], "rejected_with": got}
    raise core.Machinery("no observation available for the canary")


def run(prop, judge, tier, seed, t0, cls="monoidal", invariants=(), drift=False, extra_hook=None,
        families=False, keep_states=False):
    cfgt = RIGID_TIERS[tier] if cls == "rigid" else TIE_TIERS[tier] if cls == "tie" else CAT_TIERS[tier] if cls == "cat" else TIERS[tier]
    ops = OPS[prop]
    A = get_adapter(cls)
    mc, trace_module = CLASSES[cls]["mc"], CLASSES[cls]["trace"]
    tm = {}
    _t = [time.time()]

    def lap(name):
        tm[name] = round(time.time() - _t[0], 1)
        _t[0] = time.time()
    with core.workdir(prop) as work:
        # leg 1: exhaustive model checking, states dumped
        model = core.run_model(mc, work, constants={"MaxBoxes": cfgt["MaxBoxes"], "MaxWidth": cfgt["MaxWidth"]},
                               invariants=list(invariants), view="View", dump=True, coverage=False)
        with open(model["lib"]) as f:
            lib = json.load(f)
        states = machine.states_from_dump(model["dump"])
        os.remove(model["dump"])
        n_states = len(states)
        rnd = core.rng(seed, prop)
        if len(states) > cfgt["states"]:
            # stratified: every state with few boxes (whole strata while they fit in half the budget), the rest sampled
            by_n = {}
            for st in states:
                by_n.setdefault(len(st["d"]["boxes"]), []).append(st)
            keep, rest = [], []
            for n in sorted(by_n):
                if not rest and len(keep) + len(by_n[n]) <= cfgt["states"] // 2:
                    keep += by_n[n]
                else:
                    rest += by_n[n]
            states = keep + rnd.sample(rest, min(len(rest), cfgt["states"] - len(keep)))
        lap("model")
        chains, simres = simulate(cls, work, cfgt, seed)
        lap("simulate")
        # leg 2: replay on the real library
        files, hooks, stats = machine.replay(A, lib, states, work, seed, tag="states")
        files2, hooks2, stats2 = machine.replay(A, lib, chains, work, seed, tag="chains")
        slowest = max(stats["slowest_call_cpu_s"], stats2["slowest_call_cpu_s"])
        fam_info = None
        if families:
            walks, spmodel = spiral_walks(work, cfgt["spiral_cups"], cfgt["spiral_walks"], cfgt["spiral_depth"], seed)
            files3, hooks3, stats3 = machine.replay(A, lib, walks, work, seed, tag="families")
            files2, hooks2 = files2 + files3, hooks2 + hooks3
            fam_info = {"module": "MC_Spiral", "MaxCups": cfgt["spiral_cups"], "states": spmodel["distinct"],
                        "transitions": spmodel["generated"], "walks_replayed": len(walks),
                        "walk_depth": cfgt["spiral_depth"], "calls": stats3["calls"]}
            slowest = max(slowest, stats3["slowest_call_cpu_s"])
        lap("replay")
        trace_file = os.path.join(work, "trace.ndjson")
        # (the rigid normal form yanks snakes: its results are judged by C07, not as interchanges)
        n_hist, n_calls = filter_ops(files + files2, ops, trace_file)
        # leg 3: trace validation
        val = core.validate_parallel(trace_module, judge, trace_file, work)
        verdicts = [v for v in val["verdicts"]]
        rows = core.read_ndjson(trace_file)
        if len(rows) != len(verdicts):
            raise core.Machinery("verdict count mismatch")
        rejected, clause_count, accepted_hist = core.track([]), Counter(), 0
        for t, v in zip(rows, verdicts):
            if len(v) != len(t["calls"]):
                raise core.Machinery("verdict count mismatch in a history")
            bad = False
            for c, x in zip(t["calls"], v):
                clause_count[x] += 1
                if x != "ok":
                    bad = True
                    rejected.append({"clause": x, "sig": sig_of(t, c),
                                     "obs": {"cls": cls, "d": t["d"], "call": c,
                                             "pre": t["calls"][c["p"] - 1]["res"] if c["p"] else None}})
            accepted_hist += 0 if bad else 1
        lap("validate")
        can = canary(trace_module, judge, trace_file, verdicts, work, CANARY_OPS[prop] or ops)
        drift_count = None
        if drift:
            dv = core.validate_parallel(trace_module, "JDrift", trace_file, work)
            drift_count = dict(Counter(x for v in dv["verdicts"] for x in v if x != "ok"))
        lap("canary+drift")
        op_count = Counter(c["op"] for t in rows for c in t["calls"])
        exc_count = Counter(c["exc"] for t in rows for c in t["calls"] if c["exc"])
        samples = []
        for t in rows[:2] + rows[-1:]:
            c = t["calls"][len(t["calls"]) // 2]
            samples.append({"start": describe(t["d"]), "n_calls": len(t["calls"]),
                            "one_call": {k: c[k] for k in ("op", "i", "j", "g", "p", "exc")},
                            "result": describe(c["res"]) if not c["exc"] else c["exc"]})
        coverage = {
            "states": model["distinct"], "transitions": model["generated"],
            "traces_validated_against_impl": accepted_hist,
            "samples": samples,
            "exhaustive": False,
            "model": {"module": mc, "MaxBoxes": cfgt["MaxBoxes"], "MaxWidth": cfgt["MaxWidth"],
                      "invariants": list(invariants), "wall_s": model["wall_s"],
                      "simulated_behaviours": len(chains), "simulate_depth": cfgt["sim_depth"]},
            "replay": {"states_in_model": n_states, "states_replayed": len(states),
                       "histories": n_hist, "calls": n_calls, "calls_by_op": dict(op_count),
                       "refusals_by_exception": dict(exc_count),
                       "diagrams_constructed": stats["constructed"] + stats2["constructed"],
                       "slowest_call_cpu_s": slowest, "call_limit_cpu_s": stats["call_limit_cpu_s"]},
            "verdicts_by_clause": dict(clause_count),
            "canary": can, "timings_s": tm,
        }
        if drift_count is not None:
            coverage["model_drift"] = drift_count
        if fam_info:
            coverage["spiral_family"] = fam_info
            coverage["states"] += fam_info["states"]
            coverage["transitions"] += fam_info["transitions"]
        hook_files = hooks + hooks2
        if keep_states:
            coverage["_states"], coverage["_seed"] = states, seed
        if extra_hook:
            extra_hook(work, hook_files, coverage, rejected, tier)
        return coverage, rejected


def replay_one(prop, judge, path, cls="monoidal"):
    """Re-run one recorded observation on the real library and judge it again."""
    with open(path) as f:
        rp = json.load(f)
    obs = rp["observation"]
    cls = obs.get("cls", cls)
    A = get_adapter(cls)()
    with core.workdir(prop + "-replay") as work:
        model = core.run_model(CLASSES[cls]["mc"], work, constants={"MaxBoxes": 0, "MaxWidth": 0},
                               view="View", workers=1)
        with open(model["lib"]) as f:
            lib = json.load(f)
        R = machine.Replayer(A, lib)
        c = obs["call"]
        if c["p"]:
            start = {k: obs["pre"][k] for k in ("dom", "cod", "boxes", "offs")}
        else:
            start = obs["d"]
        real = A.build(start, 0)
        c0 = {k: c[k] for k in ("op", "i", "j", "g")}
        c0.update(p=0, ref=0)
        rec, _ = R.observe(real, c0)
        tf = os.path.join(work, "one.ndjson")
        core.write_ndjson(tf, [{"d": start, "calls": [rec]}])
        v = core.validate(CLASSES[cls]["trace"], judge, tf, work)["verdicts"][0][0]
        print("replayed %s: verdict=%s exc=%s" % (sig_of({"d": start}, rec), v, rec["exc"] or "-"))
        if v != "ok":
            print("VIOLATION property=%s replay=%s clause=%s" % (prop, path, v))
            return 1
        return 0
