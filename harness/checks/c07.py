"""C07 - snake removal is sound for rigid diagrams."""
import json
import multiprocessing as mp
import os
from collections import Counter

from harness import core, tlaval
from harness.project import proj_diagram, EMPTY_OBS

LEVEL = "model_checking"
ASSUME = ["a cap/cup pair 'satisfies a snake equation' when the followed leg of the cap enters the opposite leg "
          "of the cup and the wire that remains has the same type on both sides (Snake!SnakePairs)",
          "denotation under rigid functors into tensors: interchanges and snake yanks preserve it by the "
          "axioms; checked numerically on the code by C09 (normal_form invariance)",
          "bounded: all rigid diagrams over the signature of Snake!Shapes within the model constants"]
CONST = {"quick": {"MaxBoxes": 4, "MaxWidth": 3, "MaxCC": 4, "ZMax": 2, "replay": 3000},
         "thorough": {"MaxBoxes": 5, "MaxWidth": 3, "MaxCC": 4, "ZMax": 2, "replay": 8000}}
MAX_STEPS = 80


def _work(args):
    states, out = args
    from harness.adapters.free import RigidAdapter
    A = RigidAdapter()
    with open(out, "w") as f:
        for k, dabs in enumerate(states):
            real = A.build(dabs, k % 2)
            steps, exc = [], ""
            from harness.machine import time_limit, CallTimeout, CALL_LIMIT, exc_name
            try:
                with time_limit(CALL_LIMIT):
                    for n, s in enumerate(real.normalize()):
                        steps.append(proj_diagram(s, A.names))
                        if n + 1 >= MAX_STEPS:
                            exc = "Truncated"
                            break
            except (Exception, CallTimeout) as e:
                exc = exc_name(e)
            try:
                with time_limit(CALL_LIMIT):
                    nf, nfexc = proj_diagram(real.normal_form(), A.names), ""
            except (Exception, CallTimeout) as e:
                nf, nfexc = EMPTY_OBS, exc_name(e)
            f.write(json.dumps({"d": dabs, "steps": steps, "exc": exc, "nf": nf, "nfexc": nfexc}) + "\n")
    return len(states)


def _scans(d):
    out, scan = [list(d["dom"])], list(d["dom"])
    for b, o in zip(d["boxes"], d["offs"]):
        scan = scan[:o] + list(b["cod"]) + scan[o + len(b["dom"]):]
        out.append(list(scan))
    return out


def splice_snake(d, k, w, left):
    """the same morphism with the wire w of the boundary after k boxes replaced by a snake (cap on the left or right)"""
    a = _scans(d)[k][w]
    ar, al = [a[0], a[1] + 1], [a[0], a[1] - 1]
    K = lambda kind, dom, cod: {"id": 0, "kind": kind, "dom": dom, "cod": cod, "dg": 0}
    if left:
        new, offs = [K(3, [], [a, al]), K(2, [al, a], [])], [w, w + 1]
    else:
        new, offs = [K(3, [], [ar, a]), K(2, [a, ar], [])], [w + 1, w]
    return {"dom": d["dom"], "cod": d["cod"], "boxes": d["boxes"][:k] + new + d["boxes"][k:],
            "offs": d["offs"][:k] + offs + d["offs"][k:]}


def nested_family():
    """snakes inside the legs of snakes (wider than the exhaustive model allows): every way of replacing one wire of a
    snake on one wire by another snake, twice over for the tight ones; with and without a box on the straight part"""
    out = []
    for z in (-1, 0, 1):
        base = {"dom": [[1, z]], "cod": [[1, z]], "boxes": [], "offs": []}
        level1 = [splice_snake(base, 0, 0, left) for left in (True, False)]
        level2 = [splice_snake(d, k, w, left) for d in level1 for k in range(len(d["boxes"]) + 1)
                  for w in range(len(_scans(d)[k])) for left in (True, False)]
        level3 = [splice_snake(d, k, w, left) for d in level2[::3] for k in (1, 2) if k <= len(d["boxes"])
                  for w in range(len(_scans(d)[k])) for left in (True, False)]
        out += level1 + level2 + level3[::2]
    return out


def self_dual_family():
    """diagrams over the self-dual object of rigid.PRO (abstract name 9): there a cap can be closed by a cup on the same
    two legs - a loop, which denotes the dimension of the wire and is not a snake - next to genuine snakes"""
    P = [9, 0]
    K = lambda kind, dom, cod, id_=0: {"id": id_, "kind": kind, "dom": dom, "cod": cod, "dg": 0}
    cap, cup, f = K(3, [], [P, P]), K(2, [P, P], []), K(0, [P], [P], 1)
    D = lambda dom, cod, boxes, offs: {"dom": dom, "cod": cod, "boxes": boxes, "offs": offs}
    return [D([], [], [cap, cup], [0, 0]),                                   # a loop
            D([P], [P], [cap, f, cup], [1, 0, 1]),                            # a loop beside a box
            D([P], [P], [cap, cup], [1, 1]),                                  # a loop beside a wire
            D([P], [P], [cap, cup], [0, 1]),                                  # right snake
            D([P], [P], [cap, cup], [1, 0]),                                  # left snake
            D([P], [P], [cap, f, cup], [0, 0, 1]),                            # right snake with a box on the bend
            D([], [], [cap, f, cup], [0, 0, 0]),                              # a box on the loop
            D([], [], [cap, cap, cup, cup], [0, 1, 0, 0]),                    # two nested pairs
            D([P], [P], [cap, cap, cup, cup], [0, 2, 1, 1])]                  # a snake and a loop


def cap_into_cup(d):
    """does some wire produced by a cap end in a cup (without passing through a box)?"""
    wires, fresh = [("in", k) for k in range(len(d["dom"]))], 0
    for k, (b, o) in enumerate(zip(d["boxes"], d["offs"])):
        ins = wires[o:o + len(b["dom"])]
        if b["kind"] == 2 and any(w[0] == "cap" for w in ins) and len(set(w[1] for w in ins if w[0] == "cap")) == len([w for w in ins if w[0] == "cap"]):
            if not (len(ins) == 2 and ins[0][0] == "cap" and ins[1][0] == "cap" and ins[0][1] == ins[1][1]):
                return True
        outs = [("cap" if b["kind"] == 3 else "box", k)] * len(b["cod"])
        wires = wires[:o] + outs + wires[o + len(b["dom"]):]
    return False


def describe(d):
    def b(x):
        if x["kind"] == 2:
            return "Cup(%d,%d)" % (x["dom"][0][1], x["dom"][1][1])
        if x["kind"] == 3:
            return "Cap(%d,%d)" % (x["cod"][0][1], x["cod"][1][1])
        return "b%d" % x["id"]
    return "dom=%s %s" % ([a[1] for a in d["dom"]], " ".join("%s@%d" % (b(x), o) for x, o in zip(d["boxes"], d["offs"])))


def run(tier, seed, t0):
    c = CONST[tier]
    consts = {k: c[k] for k in ("MaxBoxes", "MaxWidth", "MaxCC", "ZMax")}
    consts["TypeGuard"] = "TRUE"
    with core.workdir("C07") as work:
        model = core.run_model("MC_Snake", work, constants=consts,
                               invariants=["InvNoError", "InvResult", "InvOnlySnakes"], dump=True,
                               timeout=3000)
        states = [st["d"] for st in tlaval.read_dump(model["dump"])]
        os.remove(model["dump"])
        n_all = len(states)
        rnd = core.rng(seed, "C07")
        # test-plan selection only (the verdicts are TLC's): diagrams in which a leg of a cap runs straight into a cup
        # (candidate snakes) are all replayed up to the budget, other diagrams with a cap and a cup and the rest are sampled
        snakes = [s for s in states if cap_into_cup(s)]
        flag = [any(b["kind"] == 3 for b in s["boxes"]) and any(b["kind"] == 2 for b in s["boxes"]) and not cap_into_cup(s)
                for s in states]
        interesting = [s for s, f in zip(states, flag) if f]
        rest = [s for s, f in zip(states, flag) if not f and not cap_into_cup(s)]
        n_snakes = len(snakes)
        if len(snakes) > 3 * c["replay"]:
            snakes = rnd.sample(snakes, 3 * c["replay"])
        interesting = rnd.sample(interesting, min(len(interesting), c["replay"] // 3))
        rest = rnd.sample(rest, min(len(rest), c["replay"] // 4))
        todo = snakes + interesting + rest + nested_family() + self_dual_family()
        procs = 16
        chunks = [(todo[k::procs], os.path.join(work, "obs-%d.ndjson" % k)) for k in range(procs)]
        with mp.get_context("fork").Pool(procs) as pool:
            pool.map(_work, chunks)
        tf = os.path.join(work, "trace.ndjson")
        with open(tf, "w") as fo:
            for _, p in chunks:
                with open(p) as f:
                    fo.write(f.read())
        rows = core.read_ndjson(tf)
        # validated in batches (one JVM per 6000 histories keeps TLC's memory bounded in the thorough tier)
        verdicts = []
        for lo in range(0, len(rows), 6000):
            part = os.path.join(work, "trace-%d.ndjson" % lo)
            core.write_ndjson(part, rows[lo:lo + 6000])
            verdicts += core.validate("Trace_Snake", "J07", part, work, constants=dict(consts, MaxBoxes=0), timeout=3000)["verdicts"]
            os.remove(part)
        val = {"verdicts": verdicts}
        rejected, clauses = core.track([]), Counter()
        for t, v in zip(rows, val["verdicts"]):
            clauses[v[0]] += 1
            if v[0] != "ok":
                rejected.append({"clause": v[0], "sig": "step=%s exc=%s nfexc=%s %s" % (
                    v[1], t["exc"] or "-", t["nfexc"] or "-", describe(t["d"])), "obs": {"d": t["d"]}})
        # canary: drop the cup of a yank step's predecessor -> "removed pair is not a snake" or similar
        can = None
        for t, v in zip(rows, val["verdicts"]):
            if v[0] == "ok" and len(t["steps"]) >= 1 and len(t["steps"][-1]["offs"]) >= 1 and t["exc"] == "":
                bad = json.loads(json.dumps(t))
                bad["steps"][-1]["offs"][-1] += 1
                cf = os.path.join(work, "canary.ndjson")
                core.write_ndjson(cf, [bad])
                got = core.validate("Trace_Snake", "J07", cf, work, constants=dict(consts, MaxBoxes=0))["verdicts"][0][0]
                if got != "ok":
                    can = {"corrupted": "last offset of the last yielded step", "rejected_with": got}
                    break
        if can is None:
            raise core.Machinery("canary accepted")
        drift = core.validate("Trace_Snake", "JDrift", tf, work, constants=dict(consts, MaxBoxes=0))
        n_yank = sum(1 for t in rows for a, b in zip([t["d"]] + t["steps"], t["steps"])
                     if len(b["boxes"]) == len(a["boxes"]) - 2)
        cov = {"states": model["distinct"], "transitions": model["generated"],
               "traces_validated_against_impl": clauses["ok"],
               "samples": [{"diagram": describe(t["d"]), "yielded_steps": len(t["steps"]), "exc": t["exc"],
                            "normal_form": describe(t["nf"]) if not t["nfexc"] else t["nfexc"]}
                           for t in rows[:3]],
               "exhaustive": len(todo) == n_all,
               "model": dict(consts, module="MC_Snake", invariants=["InvNoError", "InvResult", "InvOnlySnakes"],
                             wall_s=model["wall_s"]),
               "replay": {"states_in_model": n_all, "histories": len(rows), "candidate_snakes_in_model": n_snakes, "with_cap_and_cup": len(interesting),
                          "yielded_steps": sum(len(t["steps"]) for t in rows), "yank_steps": n_yank,
                          "normalize_exceptions": dict(Counter(t["exc"] for t in rows if t["exc"])),
                          "normal_form_exceptions": dict(Counter(t["nfexc"] for t in rows if t["nfexc"]))},
               "verdicts_by_clause": dict(clauses), "canary": can,
               "model_drift": dict(Counter(v[0] for v in drift["verdicts"] if v[0] != "ok"))}
        return core.finish("C07", tier, seed, LEVEL, cov, rejected, t0, ASSUME)


def replay(path):
    with open(path) as f:
        obs = json.load(f)["observation"]
    with core.workdir("C07-replay") as work:
        out = os.path.join(work, "one.ndjson")
        _work(([obs["d"]], out))
        consts = {"MaxBoxes": 0, "MaxWidth": 0, "MaxCC": 0, "ZMax": 2, "TypeGuard": "TRUE"}
        v = core.validate("Trace_Snake", "J07", out, work, constants=consts)["verdicts"][0]
        print("replayed %s: verdict=%s" % (describe(obs["d"]), v))
        if v[0] != "ok":
            print("VIOLATION property=C07 replay=%s clause=%s" % (path, v[0]))
            return 1
    return 0
