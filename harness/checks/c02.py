"""C02 - diagrams obey the strict dagger-monoidal and sum laws as equalities."""
import json
import os
from collections import Counter, defaultdict

from harness import core
from harness.checks import _diagapi
from harness.project import proj_diagram

LEVEL = "model_checking"
ASSUME = ["the value each operation must return is defined in spec/Diagrams.tla and spec/Sums.tla from the "
          "statement; the law set itself (associativity, units, involution, slice recomposition, bilinearity) is "
          "checked on those definitions by TLC (InvLaws, InvSums)",
          "formal sums are ordered lists of terms: distribution over a sum on the *left* operand and over "
          "single diagrams on either side hold as ==; (a + b) order is row-major",
          "bounded: diagrams of the exhaustive model and simulated histories; sums of 0..3 parallel diagrams "
          "drawn from the model's states",
          "'in every diagram class': besides the monoidal and rigid machines, law instances (composition, tensor as "
          "whiskered composite, units, associativity, slice recomposition; dagger involutive / identity on objects / "
          "reversing composition) are evaluated on diagrams of the circuit (mixed, with measurements and encodings), "
          "zx, tensor, cartesian and biclosed classes and judged by Trace_ClassLaws; the dagger laws are not demanded "
          "of cartesian and biclosed diagrams (functions and grammar rules have no adjoints: their boxes refuse dagger)"]


def proj_sum(s, names):
    return {"dom": _ty(s.dom, names), "cod": _ty(s.cod, names),
            "terms": [proj_diagram(t, names, layers=False) for t in s.terms]}


def _ty(t, names):
    from harness.project import proj_ty
    return proj_ty(t, names)


EMPTY_SUM = {"dom": [], "cod": [], "terms": []}


def sums_leg(work, hook_files, coverage, rejected, tier):
    """Sums of parallel diagrams taken from the model's states; every operation and law instance judged by TLC."""
    from harness.adapters.free import MonoidalAdapter
    A = MonoidalAdapter()
    m = A.m
    states = coverage.pop("_states")
    rnd = core.rng(coverage.pop("_seed"), "sums")
    groups = defaultdict(list)
    for st in states:
        groups[(json.dumps(st["d"]["dom"]), json.dumps(st["d"]["cod"]))].append(st["d"])
    keys = sorted(groups)
    n_sums = 150 if tier == "quick" else 2500

    def mk(key, n):
        ds = [A.build(rnd.choice(groups[key]), rnd.randrange(2)) for _ in range(n)]
        dom, cod = A.ty(json.loads(key[0])), A.ty(json.loads(key[1]))
        return m.Sum(ds, dom, cod)

    rows = []

    def rec(op, a, b, fn, lifted=0):
        try:
            res, exc = proj_sum(fn(), A.names), ""
        except Exception as e:
            res, exc = EMPTY_SUM, type(e).__name__
        rows.append({"op": op, "a": proj_sum(a, A.names), "b": proj_sum(b, A.names) if b is not None else EMPTY_SUM,
                     "res": res, "exc": exc, "eq": 2, "lifted": lifted})

    def law(name, fn):
        try:
            ok = 1 if fn() else 0
        except Exception:
            ok = 0
        rows.append({"op": "law", "a": EMPTY_SUM, "b": EMPTY_SUM, "res": EMPTY_SUM, "exc": "", "eq": ok,
                     "lifted": 0, "law": name})

    for _ in range(n_sums):
        k1 = rnd.choice(keys)
        a, b = mk(k1, rnd.randrange(4)), mk(k1, rnd.randrange(3))
        # a composable partner: a sum whose domain is a's codomain, if the model has one
        comp = [k for k in keys if k[0] == k1[1]]
        k2 = rnd.choice(comp) if comp else k1
        c = mk(k2, rnd.randrange(3))
        any_k = rnd.choice(keys)
        e = mk(any_k, rnd.randrange(3))
        dgm = A.build(rnd.choice(groups[k2]), 0)
        rec("then", a, c, lambda: a >> c)
        rec("then", a, e, lambda: a >> e)
        rec("tensor", a, e, lambda: a @ e)
        rec("dagger", a, None, lambda: a[::-1])
        rec("dagger", a, None, lambda: a.dagger())
        rec("add", a, b, lambda: a + b)
        rec("add", a, e, lambda: a + e)
        rec("then", a, m.Sum([dgm]), lambda: a >> dgm, lifted=1)
        rec("tensor", m.Sum([dgm]), a, lambda: dgm @ a, lifted=1)
        rec("tensor", a, m.Sum([dgm]), lambda: a @ dgm, lifted=1)
        if k2[0] == k1[1]:
            d0 = A.build(rnd.choice(groups[k1]), 0)
            rec("then", m.Sum([d0]), c, lambda: d0 >> c, lifted=1)
            law("right-distributivity-then", lambda: (a + b) >> c == (a >> c) + (b >> c))
            law("left-distributivity-then-diagram", lambda: d0 >> (c + c) == (d0 >> c) + (d0 >> c))
        zero = m.Sum([], a.dom, a.cod)
        law("right-distributivity-tensor", lambda: (a + b) @ e == (a @ e) + (b @ e))
        law("dagger-distributes", lambda: (a + b)[::-1] == a[::-1] + b[::-1])
        law("dagger-involutive", lambda: a[::-1][::-1] == a)
        law("dagger-identity-on-objects", lambda: (a[::-1].dom, a[::-1].cod) == (a.cod, a.dom))
        law("empty-sum-unit", lambda: a + zero == a and zero + a == a)
        law("dagger-of-empty-sum", lambda: zero[::-1] == m.Sum([], a.cod, a.dom))
        if k2[0] == k1[1] and (len(a.terms) <= 1 or len(c.terms) <= 1):
            # (sums are ordered: with several terms on both sides the two sides list the same
            #  terms in a different order, which the statement does not claim to be equal)
            law("dagger-reverses-composition", lambda: (a >> c)[::-1] == c[::-1] >> a[::-1])
    tf = os.path.join(work, "sums.ndjson")
    core.write_ndjson(tf, rows)
    val = core.validate("Trace_Sum", "JSum", tf, work)
    clauses = Counter()
    for t, v in zip(rows, val["verdicts"]):
        clauses[v[0]] += 1
        if v[0] != "ok":
            rejected.append({"clause": v[0], "sig": "sum op=%s law=%s terms=%d,%d exc=%s" % (
                t["op"], t.get("law", "-"), len(t["a"]["terms"]), len(t["b"]["terms"]), t["exc"] or "-"),
                "obs": t})
    bad = None
    for t, v in zip(rows, val["verdicts"]):
        if v[0] == "ok" and t["op"] == "then" and len(t["res"]["terms"]) >= 2 and \
                t["res"]["terms"][0] != t["res"]["terms"][1]:
            bad = json.loads(json.dumps(t))
            bad["res"]["terms"][0], bad["res"]["terms"][1] = bad["res"]["terms"][1], bad["res"]["terms"][0]
            break
    if bad is None:
        raise core.Machinery("no sum observation for the canary")
    cf = os.path.join(work, "sums-canary.ndjson")
    core.write_ndjson(cf, [bad])
    got = core.validate("Trace_Sum", "JSum", cf, work)["verdicts"][0][0]
    if got == "ok":
        raise core.Machinery("sum canary accepted")
    coverage["sums"] = {"observations": len(rows), "by_op": dict(Counter(t["op"] for t in rows)),
                        "refusals": sum(1 for t in rows if t["exc"]), "verdicts_by_clause": dict(clauses),
                        "canary": {"corrupted": "two terms of a composite sum exchanged", "rejected_with": got}}
    coverage["traces_validated_against_impl"] += clauses["ok"]


EMPTY_D = {"dom": [], "cod": [], "boxes": [], "offs": []}


def class_laws(d, partner, names, desc):
    """law instances on a real diagram d of a semantic class (partner: another diagram of the class with
    partner.dom == d.cod, or None); each row is judged by Trace_ClassLaws!JLaw"""
    from harness.project import proj_diagram
    P = lambda x: proj_diagram(x, names, layers=False)
    rows = []

    def row(law, fn, **kw):
        r = {"law": law, "a": EMPTY_D, "b": EMPTY_D, "c": EMPTY_D, "r": EMPTY_D, "r2": EMPTY_D, "k": 0, "eq": 1, "exc": "",
             "desc": desc}
        try:
            r.update(fn())
        except Exception as e:
            r["exc"] = type(e).__name__
        r.update(kw)
        rows.append(r)
    cls_id = type(d).id
    # cartesian (functions) and biclosed (one-way grammar rules) are not dagger categories: their boxes refuse .dagger()
    has_dagger = desc["d"]["cls"] not in ("cartesian", "biclosed")
    if has_dagger:
        row("dagger", lambda: {"a": P(d), "r": P(d.dagger()), "r2": P(d.dagger().dagger()), "eq": int(d.dagger().dagger() == d)})
    row("unit", lambda: {"a": P(d), "r": P(cls_id(d.dom) >> d), "r2": P(d >> cls_id(d.cod)),
                         "eq": int((cls_id(d.dom) >> d) == d and (d >> cls_id(d.cod)) == d and
                                   (cls_id(d.dom[:0]) @ d) == d and (d @ cls_id(d.dom[:0])) == d)})
    for k in range(len(d) + 1):
        row("slice", lambda: {"a": P(d), "b": P(d[:k]), "c": P(d[k:]), "eq": int((d[:k] >> d[k:]) == d)}, k=k)
    others = ([("adjoint", lambda: d.dagger())] if has_dagger else []) + ([("pool", lambda: partner)] if partner is not None else [])
    for tag, mk in others:
        try:
            e = mk()
        except Exception:
            continue            # already reported by the dagger row
        if e.dom != d.cod:
            continue            # not composable (an ill-typed adjoint is reported by the dagger row)
        row("then", lambda: {"a": P(d), "b": P(e), "r": P(d >> e)})
        if has_dagger:
            row("anticomp", lambda: {"a": P((d >> e).dagger()), "b": P(e.dagger()), "c": P(d.dagger()),
                                     "eq": int((d >> e).dagger() == (e.dagger() >> d.dagger()))})
        row("tensor", lambda: {"a": P(d), "b": P(e), "r": P(d @ e),
                               "r2": P(d @ cls_id(e.dom) >> cls_id(d.cod) @ e),
                               "eq": int((d @ e) == (d @ cls_id(e.dom) >> cls_id(d.cod) @ e))})
        if e.cod == d.dom:
            row("assoc", lambda: {"a": P(d), "b": P(e), "c": P(d), "r": P((d >> e) >> d), "r2": P(d >> (e >> d)),
                                  "eq": int(((d >> e) >> d) == (d >> (e >> d)))})
        row("tassoc", lambda: {"a": P(d), "b": P(e), "c": P(d), "r": P((d @ e) @ d), "r2": P(d @ (e @ d)),
                               "eq": int(((d @ e) @ d) == (d @ (e @ d)))})
    return rows


def classes_leg(work, hook_files, coverage, rejected, tier):
    """'in every diagram class': the laws on diagrams of the circuit, zx, cartesian, biclosed and tensor classes"""
    from harness import classgen
    from harness.project import Names
    names = Names()
    seed = coverage.get("_seed_classes", 0)
    rows, per_cls = [], Counter()
    for cls, descs in classgen.pools(work, tier, seed, n=60 if tier == "quick" else 1500).items():
        built = []
        for desc in descs:
            try:
                d = classgen.build(desc)
            except Exception:
                d = None
            if d is not None:
                built.append((desc, d))
        for i, (desc, d) in enumerate(built):
            partner = None
            for j in range(1, len(built)):
                cand = built[(i + j) % len(built)]
                if cand[1].dom == d.cod:
                    partner = cand
                    break
            got = class_laws(d, partner[1] if partner else None, names, {"d": desc, "partner": partner[0] if partner else None})
            rows += got
            per_cls[cls] += len(got)
    tf = os.path.join(work, "classlaws.ndjson")
    core.write_ndjson(tf, [{k: v for k, v in t.items() if k != "desc"} for t in rows])
    val = core.validate("Trace_ClassLaws", "JLaw", tf, work)
    clauses = Counter()
    for t, v in zip(rows, val["verdicts"]):
        clauses[v[0]] += 1
        if v[0] != "ok":
            rejected.append({"clause": v[0], "sig": "class=%s law=%s k=%d exc=%s boxes=%s" % (
                t["desc"]["d"]["cls"], t["law"], t["k"], t["exc"] or "-", _boxnames(t["desc"]["d"])), "obs": t})
    # canary: a dagger whose codomain is not the domain must be rejected
    bad = None
    for t, v in zip(rows, val["verdicts"]):
        if v[0] == "ok" and t["law"] == "dagger" and t["a"]["dom"] != t["a"]["cod"]:
            bad = json.loads(json.dumps({k: v for k, v in t.items() if k != "desc"}))
            bad["r"]["cod"] = bad["a"]["cod"]
            break
    if bad is None:
        raise core.Machinery("no canary candidate in the class leg")
    cf = os.path.join(work, "classlaws-canary.ndjson")
    core.write_ndjson(cf, [bad])
    got = core.validate("Trace_ClassLaws", "JLaw", cf, work)["verdicts"][0][0]
    if got == "ok":
        raise core.Machinery("class-law canary accepted")
    coverage["class_laws"] = {"law_instances_by_class": dict(per_cls), "by_law": dict(Counter(t["law"] for t in rows)),
                              "verdicts_by_clause": dict(clauses),
                              "canary": {"corrupted": "codomain of a recorded adjoint", "rejected_with": got}}
    coverage["traces_validated_against_impl"] += clauses["ok"]


def _boxnames(desc):
    src = desc.get("src")
    if isinstance(src, dict) and "layers" in src:
        def nm(x):
            return "sqrt-scalar" if x.get("k") == "scalar" and x.get("sub") == "sqrt" else str(x.get("k"))
        return ",".join(nm(l.get("g") or l.get("b") or {}) for l in src["layers"])
    return json.dumps(src)[:80]


def run(tier, seed, t0):
    covr, rejr = _diagapi.run("C02", "J02", tier, seed, t0, cls="rigid", invariants=["InvWellTyped", "InvLaws"],
                              extra_hook=classes_leg)
    cov, rej = _diagapi.run("C02", "J02", tier, seed, t0, invariants=["InvWellTyped", "InvLaws", "InvSums"],
                            extra_hook=sums_leg, keep_states=True)
    covc, rejc = _diagapi.run("C02", "J02", tier, seed, t0, cls="cat", invariants=["InvWellTyped", "InvLaws"])
    cov["cat_machine"] = {k: covc[k] for k in ("states", "transitions", "traces_validated_against_impl", "model", "replay",
                                               "verdicts_by_clause", "canary")}
    cov["states"] += covc["states"]
    cov["transitions"] += covc["transitions"]
    cov["traces_validated_against_impl"] += covc["traces_validated_against_impl"]
    rejr = rejr + rejc
    cov["class_laws"] = covr.pop("class_laws")
    cov["rigid_machine"] = {k: covr[k] for k in ("states", "transitions", "traces_validated_against_impl", "model", "replay",
                                                 "verdicts_by_clause", "canary")}
    cov["states"] += covr["states"]
    cov["transitions"] += covr["transitions"]
    cov["traces_validated_against_impl"] += covr["traces_validated_against_impl"]
    return core.finish("C02", tier, seed, LEVEL, cov, rej + rejr, t0, ASSUME)


def replay(path):
    with open(path) as f:
        rp = json.load(f)
    obs = rp.get("observation") or {}
    if "law" in obs and "desc" in obs:
        from harness import classgen
        from harness.project import Names
        d = classgen.build(obs["desc"]["d"])
        partner = classgen.build(obs["desc"]["partner"]) if obs["desc"].get("partner") else None
        rows = [t for t in class_laws(d, partner, Names(), obs["desc"]) if t["law"] == obs["law"] and t["k"] == obs["k"]]
        with core.workdir("C02-replay") as work:
            tf = os.path.join(work, "laws.ndjson")
            core.write_ndjson(tf, [{k: v for k, v in t.items() if k != "desc"} for t in rows])
            rc = 0
            for v in core.validate("Trace_ClassLaws", "JLaw", tf, work)["verdicts"]:
                print("re-executed law %s on the %s class: %s" % (obs["law"], obs["desc"]["d"]["cls"], v[0]))
                if v[0] != "ok":
                    print("VIOLATION property=C02 replay=%s clause=%s" % (path, v[0]))
                    rc = 1
            return rc
    if "call" not in (rp.get("observation") or {}):
        with core.workdir("C02-replay") as work:
            tf = os.path.join(work, "one.ndjson")
            core.write_ndjson(tf, [rp["observation"]])
            v = core.validate("Trace_Sum", "JSum", tf, work)["verdicts"][0][0]
            print("re-judged recorded sum observation: %s" % v)
            if v != "ok":
                print("VIOLATION property=C02 replay=%s clause=%s" % (path, v))
                return 1
            return 0
    return _diagapi.replay_one("C02", "J02", path)
