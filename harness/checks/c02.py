"""C02 - diagrams obey the strict dagger-monoidal and sum laws as equalities."""
from harness import core
from harness.checks import _diagapi

LEVEL = "model_checking"
ASSUME = ["the value each operation must return is defined in spec/Diagrams.tla from the statement; the law "
          "set itself (associativity, units, involution, slice recomposition) is checked on those definitions "
          "by TLC (InvLaws)",
          "bounded: diagrams of the exhaustive model and simulated histories"]


def run(tier, seed, t0):
    cov, rej = _diagapi.run("C02", "J02", tier, seed, t0, invariants=["InvWellTyped", "InvLaws"])
    return core.finish("C02", tier, seed, LEVEL, cov, rej, t0, ASSUME)


def replay(path):
    return _diagapi.replay_one("C02", "J02", path)
