"""C02 - diagrams obey the strict dagger-monoidal and sum laws as equalities."""
import json
import os
from collections import Counter, defaultdict

from harness import core
from harness.checks import _diagapi
from harness.project import proj_diagram

LEVEL = "model_checking"
ASSUME = ["the value each operation must return is defined in spec/Diagrams.tla and spec/Sums.tla from the "
          "statement; the law set itself (associativity, units, involution, slice recomposition, bilinearity) is "
          "checked on those definitions by TLC (InvLaws, InvSums)",
          "formal sums are ordered lists of terms: distribution over a sum on the *left* operand and over "
          "single diagrams on either side hold as ==; (a + b) order is row-major",
          "bounded: diagrams of the exhaustive model and simulated histories; sums of 0..3 parallel diagrams "
          "drawn from the model's states"]


def proj_sum(s, names):
    return {"dom": _ty(s.dom, names), "cod": _ty(s.cod, names),
            "terms": [proj_diagram(t, names, layers=False) for t in s.terms]}


def _ty(t, names):
    from harness.project import proj_ty
    return proj_ty(t, names)


EMPTY_SUM = {"dom": [], "cod": [], "terms": []}


def sums_leg(work, hook_files, coverage, rejected, tier):
    """Sums of parallel diagrams taken from the model's states; every operation and law instance judged by TLC."""
    from harness.adapters.free import MonoidalAdapter
    A = MonoidalAdapter()
    m = A.m
    states = coverage.pop("_states")
    rnd = core.rng(coverage.pop("_seed"), "sums")
    groups = defaultdict(list)
    for st in states:
        groups[(json.dumps(st["d"]["dom"]), json.dumps(st["d"]["cod"]))].append(st["d"])
    keys = sorted(groups)
    n_sums = 150 if tier == "quick" else 2500

    def mk(key, n):
        ds = [A.build(rnd.choice(groups[key]), rnd.randrange(2)) for _ in range(n)]
        dom, cod = A.ty(json.loads(key[0])), A.ty(json.loads(key[1]))
        return m.Sum(ds, dom, cod)

    rows = []

    def rec(op, a, b, fn, lifted=0):
        try:
            res, exc = proj_sum(fn(), A.names), ""
        except Exception as e:
            res, exc = EMPTY_SUM, type(e).__name__
        rows.append({"op": op, "a": proj_sum(a, A.names), "b": proj_sum(b, A.names) if b is not None else EMPTY_SUM,
                     "res": res, "exc": exc, "eq": 2, "lifted": lifted})

    def law(name, fn):
        try:
            ok = 1 if fn() else 0
        except Exception:
            ok = 0
        rows.append({"op": "law", "a": EMPTY_SUM, "b": EMPTY_SUM, "res": EMPTY_SUM, "exc": "", "eq": ok,
                     "lifted": 0, "law": name})

    for _ in range(n_sums):
        k1 = rnd.choice(keys)
        a, b = mk(k1, rnd.randrange(4)), mk(k1, rnd.randrange(3))
        # a composable partner: a sum whose domain is a's codomain, if the model has one
        comp = [k for k in keys if k[0] == k1[1]]
        k2 = rnd.choice(comp) if comp else k1
        c = mk(k2, rnd.randrange(3))
        any_k = rnd.choice(keys)
        e = mk(any_k, rnd.randrange(3))
        dgm = A.build(rnd.choice(groups[k2]), 0)
        rec("then", a, c, lambda: a >> c)
        rec("then", a, e, lambda: a >> e)
        rec("tensor", a, e, lambda: a @ e)
        rec("dagger", a, None, lambda: a[::-1])
        rec("dagger", a, None, lambda: a.dagger())
        rec("add", a, b, lambda: a + b)
        rec("add", a, e, lambda: a + e)
        rec("then", a, m.Sum([dgm]), lambda: a >> dgm, lifted=1)
        rec("tensor", m.Sum([dgm]), a, lambda: dgm @ a, lifted=1)
        rec("tensor", a, m.Sum([dgm]), lambda: a @ dgm, lifted=1)
        if k2[0] == k1[1]:
            d0 = A.build(rnd.choice(groups[k1]), 0)
            rec("then", m.Sum([d0]), c, lambda: d0 >> c, lifted=1)
            law("right-distributivity-then", lambda: (a + b) >> c == (a >> c) + (b >> c))
            law("left-distributivity-then-diagram", lambda: d0 >> (c + c) == (d0 >> c) + (d0 >> c))
        zero = m.Sum([], a.dom, a.cod)
        law("right-distributivity-tensor", lambda: (a + b) @ e == (a @ e) + (b @ e))
        law("dagger-distributes", lambda: (a + b)[::-1] == a[::-1] + b[::-1])
        law("dagger-involutive", lambda: a[::-1][::-1] == a)
        law("dagger-identity-on-objects", lambda: (a[::-1].dom, a[::-1].cod) == (a.cod, a.dom))
        law("empty-sum-unit", lambda: a + zero == a and zero + a == a)
        law("dagger-of-empty-sum", lambda: zero[::-1] == m.Sum([], a.cod, a.dom))
        if k2[0] == k1[1] and (len(a.terms) <= 1 or len(c.terms) <= 1):
            # (sums are ordered: with several terms on both sides the two sides list the same
            #  terms in a different order, which the statement does not claim to be equal)
            law("dagger-reverses-composition", lambda: (a >> c)[::-1] == c[::-1] >> a[::-1])
    tf = os.path.join(work, "sums.ndjson")
    core.write_ndjson(tf, rows)
    val = core.validate("Trace_Sum", "JSum", tf, work)
    clauses = Counter()
    for t, v in zip(rows, val["verdicts"]):
        clauses[v[0]] += 1
        if v[0] != "ok":
            rejected.append({"clause": v[0], "sig": "sum op=%s law=%s terms=%d,%d exc=%s" % (
                t["op"], t.get("law", "-"), len(t["a"]["terms"]), len(t["b"]["terms"]), t["exc"] or "-"),
                "obs": t})
    bad = None
    for t, v in zip(rows, val["verdicts"]):
        if v[0] == "ok" and t["op"] == "then" and len(t["res"]["terms"]) >= 2 and \
                t["res"]["terms"][0] != t["res"]["terms"][1]:
            bad = json.loads(json.dumps(t))
            bad["res"]["terms"][0], bad["res"]["terms"][1] = bad["res"]["terms"][1], bad["res"]["terms"][0]
            break
    if bad is None:
        raise core.Machinery("no sum observation for the canary")
    cf = os.path.join(work, "sums-canary.ndjson")
    core.write_ndjson(cf, [bad])
    got = core.validate("Trace_Sum", "JSum", cf, work)["verdicts"][0][0]
    if got == "ok":
        raise core.Machinery("sum canary accepted")
    coverage["sums"] = {"observations": len(rows), "by_op": dict(Counter(t["op"] for t in rows)),
                        "refusals": sum(1 for t in rows if t["exc"]), "verdicts_by_clause": dict(clauses),
                        "canary": {"corrupted": "two terms of a composite sum exchanged", "rejected_with": got}}
    coverage["traces_validated_against_impl"] += clauses["ok"]


def run(tier, seed, t0):
    covr, rejr = _diagapi.run("C02", "J02", tier, seed, t0, cls="rigid", invariants=["InvWellTyped", "InvLaws"])
    cov, rej = _diagapi.run("C02", "J02", tier, seed, t0, invariants=["InvWellTyped", "InvLaws", "InvSums"],
                            extra_hook=sums_leg, keep_states=True)
    cov["rigid_machine"] = {k: covr[k] for k in ("states", "transitions", "traces_validated_against_impl", "model", "replay",
                                                 "verdicts_by_clause", "canary")}
    cov["states"] += covr["states"]
    cov["transitions"] += covr["transitions"]
    cov["traces_validated_against_impl"] += covr["traces_validated_against_impl"]
    return core.finish("C02", tier, seed, LEVEL, cov, rej + rejr, t0, ASSUME)


def replay(path):
    with open(path) as f:
        rp = json.load(f)
    if "call" not in (rp.get("observation") or {}):
        with core.workdir("C02-replay") as work:
            tf = os.path.join(work, "one.ndjson")
            core.write_ndjson(tf, [rp["observation"]])
            v = core.validate("Trace_Sum", "JSum", tf, work)["verdicts"][0][0]
            print("re-judged recorded sum observation: %s" % v)
            if v != "ok":
                print("VIOLATION property=C02 replay=%s clause=%s" % (path, v))
                return 1
            return 0
    return _diagapi.replay_one("C02", "J02", path)
