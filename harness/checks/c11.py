"""C11 - pure circuits evaluate to the unitary they describe."""
import glob
import json
import os
from collections import Counter

from harness import core, tlaval, qadapt

LEVEL = "model_checking"
ASSUME = ["convention (DESIGN 5/C11): tensors are indexed [input, output], leftmost qubit most significant; a gate "
          "named like a tket operation with unitary U has tensor[in, out] = U[out, in]; the spec's gate table is "
          "cross-checked against pytket's get_unitary on every run (a mismatch is a machinery failure, exit 2)",
          "phases range over the 1/8-turn grid, where every entry lies in Z[e^{i pi/8}][1/sqrt2] and TLC computes the "
          "expected tensor exactly; 'arbitrary real phases' off the grid are not claimed",
          "the final comparison of the library's float array with the float image of TLC's exact tensor uses "
          "|x - y| <= 1e-9 * max(1, max|y|) (harness/core.close); it is the only step outside TLC",
          "bounded: circuits of the exhaustive model (MaxQ, MaxLayers), simulated deeper circuits, all rewirings on "
          "at most 4 qubits"]
CONST = {"quick": {"MaxQ": 2, "MaxLayers": 2, "replay": 450, "sim": (3, 4, 40)},
         "thorough": {"MaxQ": 2, "MaxLayers": 2, "replay": 9081, "sim": (3, 6, 600)}}


def flat(arr):
    import numpy as np
    return [complex(v) for v in np.asarray(arr, dtype=complex).flatten()]


def observe(c):
    rec = {"exc": "", "dexc": "", "arr": None, "darr": None}
    try:
        real = qadapt.circuit(c)
    except Exception as e:
        rec["exc"] = "build:" + type(e).__name__
        return rec
    try:
        rec["arr"] = flat(real.eval().array)
    except Exception as e:
        rec["exc"] = type(e).__name__
    try:
        rec["darr"] = flat(real.dagger().eval().array)
    except Exception as e:
        rec["dexc"] = type(e).__name__
    return rec


def compare(exp, got):
    """exp: list of ring elements, got: list of complex -> (ok, max deviation)"""
    ys = [core.ring_to_complex(p) for p in exp]
    if got is None or len(ys) != len(got):
        return False, None
    scale = max([abs(y) for y in ys] + [1.0])
    dev = max([abs(x - y) for x, y in zip(got, ys)] + [0.0])
    return dev <= 1e-9 * scale, dev


def tket_table_check(work):
    """The spec's gate table against pytket (validates the *specification*; exit 2 on mismatch)."""
    import numpy as np
    from pytket.circuit import Op, OpType
    G = lambda k, ph=0: {"k": k, "ph": ph, "bits": [], "dg": 0, "sub": "", "subdg": 0, "re": 0, "im": 0, "s": 0}
    cases = []
    for k, ot, n in (("H", OpType.H, 1), ("X", OpType.X, 1), ("Y", OpType.Y, 1), ("Z", OpType.Z, 1),
                     ("S", OpType.S, 1), ("T", OpType.T, 1), ("CX", OpType.CX, 2), ("CZ", OpType.CZ, 2),
                     ("SWAP", OpType.SWAP, 2)):
        cases.append((G(k), Op.create(ot), n))
    for ph in range(-3, 12):
        for k, ot, n in (("Rx", OpType.Rx, 1), ("Ry", OpType.Ry, 1), ("Rz", OpType.Rz, 1),
                         ("CRz", OpType.CRz, 2), ("CRx", OpType.CRx, 2), ("CU1", OpType.CU1, 2)):
            cases.append((G(k, ph), Op.create(ot, 2 * ph / 8), n))     # tket counts half turns
    rows = [{"kind": "circuit", "c": {"dom": n, "layers": [{"g": g, "off": 0}]}, "a": 0, "b": 0, "n": 0}
            for g, _, n in cases]
    tf = os.path.join(work, "table.ndjson")
    core.write_ndjson(tf, rows)
    out = core.validate("Trace_Gates", "Expect", tf, work, constants=VC)["rows"]
    for (g, op, n), row in zip(cases, out):
        U = np.asarray(op.get_unitary())
        exp = [core.ring_to_complex(p) for p in row["e"]]
        want = list(U.T.flatten())               # [in, out] = U[out, in]
        # tket's Rx/Ry/Rz/CRz are defined up to nothing (exact), CU1 = diag(1,1,1,e^{i pi a})
        if max(abs(a - b) for a, b in zip(exp, want)) > 1e-9:
            raise core.Machinery("spec gate table disagrees with pytket for %s(%s/8)" % (g["k"], g["ph"]))
    return len(cases)


VC = {"MaxQ": 0, "MaxLayers": 0, "Phases": "<- PhasesQ"}


def run(tier, seed, t0):
    c = CONST[tier]
    rnd = core.rng(seed, "C11")
    with core.workdir("C11") as work:
        core.run_model("Ring16Test", work, spec=None, workers=1) if False else None
        model = core.run_model("MC_Gates", work, constants={"MaxQ": c["MaxQ"], "MaxLayers": c["MaxLayers"],
                                                            "Phases": "<- PhasesQ"},
                               invariants=["InvIsometry", "InvDagger"], dump=True, timeout=3000)
        circuits = [st["c"] for st in tlaval.read_dump(model["dump"])]
        os.remove(model["dump"])
        n_all = len(circuits)
        singles = [x for x in circuits if len(x["layers"]) <= 1]
        rest = [x for x in circuits if len(x["layers"]) > 1]
        sample = singles + (rest if len(rest) <= c["replay"] else rnd.sample(rest, c["replay"]))
        # deeper circuits: TLC simulation
        mq, depth, num = c["sim"]
        simdir = os.path.join(work, "sim")
        os.makedirs(simdir)
        core.run_model("MC_Gates", work, constants={"MaxQ": mq, "MaxLayers": depth, "Phases": "<- PhasesT"},
                       workers=1, simulate="file=%s/tr,num=%d" % (simdir, num), depth=depth + 1, seed=seed,
                       tag="_sim", timeout=3000)
        sims = []
        for path in sorted(glob.glob(os.path.join(simdir, "tr_*"))):
            steps = tlaval.read_simulate(path)
            if steps:
                sims.append(steps[-1][1]["c"])
            os.remove(path)
        n_table = tket_table_check(work)
        # the whole 1/8 grid over more than two periods, negative phases included, plain and daggered, for every
        # rotation kind (special values - zero, quarter, half and full turns - are where shortcuts go wrong)
        G0 = lambda k, ph, dg: {"k": k, "ph": ph, "bits": [], "dg": dg, "sub": "", "subdg": 0, "re": 0, "im": 0, "s": 0}
        grid = []
        for ph in range(-9, 26):
            for k in ("Rx", "Ry", "Rz", "CU1", "CRz", "CRx"):
                for dg in (0, 1):
                    n = 1 if k in ("Rx", "Ry", "Rz") else 2
                    grid.append({"dom": n, "layers": [{"g": G0(k, ph, dg), "off": 0}]})
            grid.append({"dom": 2, "layers": [{"g": dict(G0("Ctrl", ph, 0), sub="Rz"), "off": 0}]})
            grid.append({"dom": 2, "layers": [{"g": dict(G0("Ctrl", ph, 0), sub="Rz", subdg=1), "off": 0}]})
        # every gate followed by its adjoint and preceded by it (g ; g^dagger = id exactly): gates that share a name with
        # their adjoint (controlled gates, S, T, rotations) occur together in one circuit
        pairs = []
        for g in [G0(k, 0, 0) for k in ("H", "X", "Y", "Z", "S", "T", "CX", "CZ", "SWAP")] + \
                 [G0(k, ph, 0) for k in ("Rx", "Ry", "Rz", "CU1", "CRz", "CRx") for ph in (1, 3)] + \
                 [dict(G0("Ctrl", 0, 0), sub=sub) for sub in ("X", "Y", "Z", "H", "S", "T")] + [dict(G0("Ctrl", 3, 0), sub="Rz")]:
            n = 1 if g["k"] in ("H", "X", "Y", "Z", "S", "T", "Rx", "Ry", "Rz") else 2
            if g["k"] == "Ctrl":
                gd = dict(g, subdg=1)
            else:
                gd = dict(g, dg=1)
            pairs.append({"dom": n, "layers": [{"g": g, "off": 0}, {"g": gd, "off": 0}]})
            pairs.append({"dom": n, "layers": [{"g": gd, "off": 0}, {"g": g, "off": 0}]})
        grid += pairs
        if tier == "quick":
            grid = [x for k, x in enumerate(grid) if -4 <= x["layers"][0]["g"]["ph"] <= 17]
        sample = sample + grid
        rows = [{"kind": "circuit", "c": x, "a": 0, "b": 0, "n": 0} for x in sample + sims]
        obs = [observe(x) for x in sample + sims]
        # rewirings: op on qubits (a, b) of n qubits
        G = lambda k, ph=0: {"k": k, "ph": ph, "bits": [], "dg": 0, "sub": "", "subdg": 0, "re": 0, "im": 0, "s": 0}
        ops = [{"dom": 2, "layers": [{"g": G("CX"), "off": 0}]}, {"dom": 2, "layers": [{"g": G("CZ"), "off": 0}]},
               {"dom": 2, "layers": [{"g": G("CRz", 1), "off": 0}]}, {"dom": 2, "layers": [{"g": G("SWAP"), "off": 0}]},
               {"dom": 2, "layers": [{"g": G("Y"), "off": 0}, {"g": G("CX"), "off": 0}, {"g": G("T"), "off": 1}]}]
        from discopy.quantum.gates import rewire
        import numpy as np
        for op in ops:
            for n in (2, 3, 4):
                for a in range(n):
                    for b in range(n):
                        if a == b:
                            continue
                        rows.append({"kind": "rewire", "c": op, "a": a, "b": b, "n": n})
                        rec = {"exc": "", "dexc": "", "arr": None, "darr": None}
                        try:
                            from discopy.quantum import qubit
                            real = rewire(qadapt.circuit(op), a, b, dom=qubit ** n)
                            rec["arr"] = flat(real.eval().array)
                            rec["darr"] = flat(real.dagger().eval().array)
                        except Exception as e:
                            rec["exc"] = type(e).__name__
                        obs.append(rec)
        tf = os.path.join(work, "trace.ndjson")
        core.write_ndjson(tf, rows)
        exp = core.validate("Trace_Gates", "Expect", tf, work, constants=VC, timeout=3000)["rows"]
        rejected, clauses = core.track([]), Counter()
        max_ok, min_bad = 0.0, None
        for t, o, e in zip(rows, obs, exp):
            what = qadapt.describe(t["c"]) + (" rewire(%d,%d) on %d" % (t["a"], t["b"], t["n"]) if t["kind"] == "rewire" else "")
            clause = "ok"
            if o["exc"]:
                clause = "evaluation-raised"
            else:
                ok, dev = compare(e["e"], o["arr"])
                if not ok:
                    clause = "rewired-gate-does-not-act-on-the-stated-qubits" if t["kind"] == "rewire" else \
                        ("gate-is-not-the-standard-matrix" if len(t["c"]["layers"]) == 1 else
                         "evaluation-is-not-the-ordered-product-of-the-gates")
                    min_bad = dev if min_bad is None or (dev is not None and dev < min_bad) else min_bad
                else:
                    max_ok = max(max_ok, dev)
                    if o["dexc"]:
                        clause = "dagger-evaluation-raised"
                    else:
                        ok2, dev2 = compare(e["de"], o["darr"])
                        if not ok2:
                            clause = "dagger-does-not-evaluate-to-the-conjugate-transpose"
                            min_bad = dev2 if min_bad is None or (dev2 is not None and dev2 < min_bad) else min_bad
                        else:
                            max_ok = max(max_ok, dev2)
            clauses[clause] += 1
            if clause != "ok":
                kinds = sorted(set(l["g"]["k"] + ("(" + l["g"]["sub"] + ("+" if l["g"].get("subdg") else "") + ")" if l["g"]["k"] == "Ctrl" else "")
                                   + ("+" if l["g"]["dg"] else "") for l in t["c"]["layers"]))
                rejected.append({"clause": clause, "sig": "gates=%s | %s exc=%s" % (",".join(kinds), what, o["exc"] or o["dexc"] or "-"),
                                 "obs": {"t": t}})
        # canary: the expectation of a different circuit must not match
        k = next(i for i, (t, o) in enumerate(zip(rows, obs)) if o["arr"] and len(t["c"]["layers"]) >= 2 and
                 any(l["g"]["k"] in ("Rz", "T", "S") for l in t["c"]["layers"]) and compare(exp[i]["e"], o["arr"])[0]
                 and max(abs(v) for v in o["arr"]) > 0.2)
        j = max(range(len(obs[k]["arr"])), key=lambda i: abs(obs[k]["arr"][i]))
        bad = [v * (-1 if i == j else 1) for i, v in enumerate(obs[k]["arr"])]
        if compare(exp[k]["e"], bad)[0]:
            raise core.Machinery("canary accepted: a sign flip of one entry goes unnoticed")
        cov = {"states": model["distinct"], "transitions": model["generated"],
               "traces_validated_against_impl": clauses["ok"],
               "samples": [{"circuit": qadapt.describe(t["c"]), "kind": t["kind"], "entries": len(e["e"])}
                           for t, e in ((rows[5], exp[5]), (rows[len(rows) // 2], exp[len(rows) // 2]), (rows[-1], exp[-1]))],
               "exhaustive": False,
               "model": {"module": "MC_Gates", "MaxQ": c["MaxQ"], "MaxLayers": c["MaxLayers"],
                         "invariants": ["InvIsometry", "InvDagger"], "wall_s": model["wall_s"],
                         "simulated": {"MaxQ": mq, "depth": depth, "circuits": len(sims)}},
               "replay": {"circuits_in_model": n_all, "circuits_replayed": len(sample) + len(sims),
                          "rewirings": sum(1 for t in rows if t["kind"] == "rewire"),
                          "spec_table_entries_checked_against_pytket": n_table},
               "verdicts_by_clause": dict(clauses),
               "largest_accepted_deviation": max_ok, "smallest_rejected_deviation": min_bad,
               "canary": {"corrupted": "sign of one entry of a returned array", "rejected_with": "deviation above tolerance"}}
        return core.finish("C11", tier, seed, LEVEL, cov, rejected, t0, ASSUME)


def replay(path):
    with open(path) as f:
        t = json.load(f)["observation"]["t"]
    with core.workdir("C11-replay") as work:
        tf = os.path.join(work, "one.ndjson")
        core.write_ndjson(tf, [t])
        e = core.validate("Trace_Gates", "Expect", tf, work, constants=VC)["rows"][0]
        if t["kind"] == "rewire":
            from discopy.quantum.gates import rewire
            from discopy.quantum import qubit
            real = rewire(qadapt.circuit(t["c"]), t["a"], t["b"], dom=qubit ** t["n"])
            o = {"exc": "", "dexc": "", "arr": flat(real.eval().array), "darr": flat(real.dagger().eval().array)}
        else:
            o = observe(t["c"])
        ok = not o["exc"] and compare(e["e"], o["arr"])[0] and not o["dexc"] and compare(e["de"], o["darr"])[0]
        print("replayed %s: %s" % (qadapt.describe(t["c"]), "ok" if ok else "rejected"))
        if not ok:
            print("VIOLATION property=C11 replay=%s" % path)
            return 1
    return 0
