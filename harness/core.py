"""Shared pipeline pieces: scratch dirs, TLC trace validation, verdicts, evidence."""
import contextlib
import json
import os
import random
import re
import shutil
import sys
import time

from harness import tlc

ROOT = os.path.dirname(os.path.dirname(os.path.abspath(__file__)))
EVID = os.path.join(ROOT, "evidence")
REPLAYS = os.path.join(ROOT, "replays")
KNOWN = os.path.join(ROOT, "known_findings.json")


class Machinery(Exception):
    """Something is wrong with the checking machinery itself (exit 2)."""


@contextlib.contextmanager
def workdir(tag):
    path = os.path.join(ROOT, ".work", "%s-%d" % (tag, os.getpid()))
    shutil.rmtree(path, ignore_errors=True)
    os.makedirs(path)
    try:
        yield path
    finally:
        if not os.environ.get("VERIF_KEEP"):
            shutil.rmtree(path, ignore_errors=True)


def write_cfg(path, spec=None, init=None, next_=None, constants=None, invariants=(),
              properties=(), view=None, constraint=None, deadlock=False, postcondition=None,
              action_constraint=None, alias=None):
    lines = []
    if spec:
        lines.append("SPECIFICATION " + spec)
    else:
        lines += ["INIT " + init, "NEXT " + next_]
    if constants:
        lines.append("CONSTANTS")
        for k, v in constants.items():
            lines.append("  %s = %s" % (k, v) if not str(v).startswith("<-") else "  %s %s" % (k, v))
    for i in invariants:
        lines.append("INVARIANT " + i)
    for p in properties:
        lines.append("PROPERTY " + p)
    if view:
        lines.append("VIEW " + view)
    if constraint:
        lines.append("CONSTRAINT " + constraint)
    if action_constraint:
        lines.append("ACTION_CONSTRAINT " + action_constraint)
    if postcondition:
        lines.append("POSTCONDITION " + postcondition)
    if alias:
        lines.append("ALIAS " + alias)
    lines.append("CHECK_DEADLOCK " + ("TRUE" if deadlock else "FALSE"))
    with open(path, "w") as f:
        f.write("\n".join(lines) + "\n")


def run_model(module, work, constants=None, invariants=(), properties=(), view=None,
              constraint=None, workers=16, timeout=1800, dump=False, coverage=False,
              spec="Spec", heap="8g", simulate=None, depth=None, seed=None, tag="", env=None,
              check=True):
    """Exhaustive (or simulated) TLC run of spec/<module>.tla with a generated cfg."""
    cfgname = "%s%s_run" % (module, tag)
    cfg = os.path.join(work, cfgname + ".cfg")
    write_cfg(cfg, spec=spec, constants=constants, invariants=invariants, properties=properties,
              view=view, constraint=constraint)
    dump_path = os.path.join(work, "%s%s.dump" % (module, tag)) if dump else None
    e = {"LIB_OUT": os.path.join(work, "%s%s.lib.json" % (module, tag))}
    e.update(env or {})
    res = _run_with_cfg(module, cfg, work, workers, timeout, dump_path, coverage, heap,
                        simulate, depth, seed, env=e, check=check)
    res["lib"] = e["LIB_OUT"]
    if dump:
        res["dump"] = dump_path + ".dump" if os.path.exists(dump_path + ".dump") else dump_path
    return res


def _run_with_cfg(module, cfg, work, workers, timeout, dump_path, coverage, heap,
                  simulate=None, depth=None, seed=None, env=None, check=True):
    # tlc.run wants cfg relative to spec dir: call the lower level directly
    import subprocess
    meta = os.path.join(work, "meta-%s-%d" % (module, int(time.time() * 1e6) % 10 ** 12))
    java = ["java", "-Xmx" + heap, "-Xss64m",
            "-XX:+UseSerialGC" if workers == 1 else "-XX:+UseParallelGC"]
    cmd = java + ["-cp", tlc.JAR, "tlc2.TLC", "-workers", str(workers), "-metadir", meta,
                  "-noGenerateSpecTE", "-config", cfg]
    if dump_path:
        cmd += ["-dump", dump_path]
    if simulate:
        cmd += ["-simulate", simulate]
    if depth:
        cmd += ["-depth", str(depth)]
    if seed is not None:
        cmd += ["-seed", str(seed)]
    if coverage:
        cmd += ["-coverage", "1"]
    cmd.append(os.path.join(tlc.SPEC, module + ".tla"))
    e = dict(os.environ)
    e.update(env or {})
    t0 = time.time()
    try:
        p = subprocess.run(cmd, stdout=subprocess.PIPE, stderr=subprocess.STDOUT, env=e,
                           timeout=timeout, cwd=work, text=True)
        out, rc = p.stdout, p.returncode
    except subprocess.TimeoutExpired as ex:
        subprocess.run(["pkill", "-f", meta], check=False)
        out = ex.stdout or ""
        out = out.decode() if isinstance(out, bytes) else out
        rc = -9
    shutil.rmtree(meta, ignore_errors=True)
    res = {"out": out, "rc": rc, "wall_s": round(time.time() - t0, 2), "generated": 0,
           "distinct": 0, "depth": 0, "coverage": {}}
    m = re.search(r'(\d+) states generated, (\d+) distinct states found', out)
    if m:
        res["generated"], res["distinct"] = int(m.group(1)), int(m.group(2))
    m = re.search(r'The depth of the complete state graph search is (\d+)', out)
    if m:
        res["depth"] = int(m.group(1))
    if coverage:
        for m in re.finditer(r'^<(\w+) line \d+, col \d+ to line \d+, col \d+ of module (\w+)>: (\d+):(\d+)',
                             out, re.M):
            a = res["coverage"].setdefault(m.group(1), [0, 0])
            a[0] += int(m.group(3))
            a[1] += int(m.group(4))
    if check and rc != 0:
        raise Machinery("TLC rc=%s on %s\n%s" % (rc, module, out[-6000:]))
    return res


def validate(module, judge, trace_file, work, timeout=1800, heap="8g", extra_env=None, constants=None):
    """Batch trace validation: TLC evaluates spec/<module>.tla's operator named by the
    JUDGE environment variable on every line of the ndjson trace and writes one verdict
    per line ({"k": line number, "v": "ok" | clause name}) to OUT.  Returns the list of
    verdict strings (index = line)."""
    out = trace_file + "." + judge + ".verdicts"
    cfg = os.path.join(work, "%s_%s_val.cfg" % (module, judge))
    write_cfg(cfg, init="TVInit", next_="TVNext", constants=constants)
    env = {"TRACE_FILE": trace_file, "OUT": out, "JUDGE": judge}
    env.update(extra_env or {})
    if os.path.exists(out):
        os.remove(out)
    res = _run_with_cfg(module, cfg, work, 1, timeout, None, False, heap, env=env, check=False)
    if res["rc"] != 0 or not os.path.exists(out):
        raise Machinery("trace validation failed rc=%s module=%s judge=%s\n%s" %
                        (res["rc"], module, judge, res["out"][-6000:]))
    verdicts, rows = [], []
    with open(out) as f:
        for line in f:
            line = line.strip()
            if line:
                row = json.loads(line)
                rows.append(row)
                verdicts.append(row.get("v"))
    res["verdicts"] = verdicts
    res["rows"] = rows
    return res


def validate_parallel(module, judge, trace_file, work, parts=8, min_rows=400, **kw):
    """validate() on contiguous parts of a long trace, one JVM per part, run side by side (the single-threaded
    evaluation of a thorough-tier trace otherwise exceeds the timeout); verdicts come back in the order of the trace"""
    from concurrent.futures import ThreadPoolExecutor
    with open(trace_file) as f:
        lines = [l for l in f if l.strip()]
    if len(lines) < min_rows:
        return validate(module, judge, trace_file, work, **kw)
    # part k holds the lines k, k + parts, k + 2 parts, ...: expensive lines, which tend to sit together, are spread out
    def one(k):
        sub = os.path.join(work, "part-%s-%d" % (judge, k))
        os.makedirs(sub, exist_ok=True)
        tf = os.path.join(sub, "trace.ndjson")
        with open(tf, "w") as f:
            f.writelines(lines[k::parts])
        r = validate(module, judge, tf, sub, heap="4g", **kw)
        shutil.rmtree(sub, ignore_errors=True)
        if len(r["verdicts"]) != len(lines[k::parts]):
            raise Machinery("part %d of the trace: %d verdicts for %d lines" % (k, len(r["verdicts"]), len(lines[k::parts])))
        return r
    with ThreadPoolExecutor(max_workers=parts) as ex:
        results = list(ex.map(one, range(parts)))
    res = dict(results[0])
    res["verdicts"], res["rows"] = [None] * len(lines), [None] * len(lines)
    for k, r in enumerate(results):
        res["verdicts"][k::parts] = r["verdicts"]
        res["rows"][k::parts] = r["rows"]
    res["wall_s"] = max(r["wall_s"] for r in results)
    return res


def ring_to_complex(p):
    """Float image of an element <<c0..c7, k>> of Z[w][1/sqrt2], w = e^{i pi/8} (spec/Ring16.tla)."""
    import cmath
    import math
    return sum(c * cmath.exp(1j * math.pi * j / 8) for j, c in enumerate(p[:8])) / (math.sqrt(2) ** p[8])


def close(x, y, scale=1.0):
    """The one float comparison of the numeric checks: |x - y| <= 1e-9 * max(1, scale)."""
    return abs(x - y) <= 1e-9 * max(1.0, scale)


def behaviour_validate(module, trace_file, work, constants=None, invariants=(), timeout=300):
    """Behaviour-style trace validation: TLC explores <module>!TraceSpec over the recorded history; accepted iff no
    invariant is violated and POSTCONDITION TraceAccepted holds (every logged event consumed)."""
    cfg = os.path.join(work, "%s_beh.cfg" % module)
    write_cfg(cfg, spec="TraceSpec", constants=constants, invariants=invariants, postcondition="TraceAccepted")
    res = _run_with_cfg(module, cfg, work, 1, timeout, None, False, "2g", env={"TRACE_FILE": trace_file,
                        "LIB_OUT": os.path.join(work, "beh.lib.json")}, check=False)
    if res["rc"] not in (0, 12, 13, 10) and "violated" not in res["out"] and "Postcondition" not in res["out"]:
        raise Machinery("behaviour validation failed rc=%s\n%s" % (res["rc"], res["out"][-3000:]))
    res["accepted"] = res["rc"] == 0
    return res


def read_ndjson(path):
    with open(path) as f:
        return [json.loads(l) for l in f if l.strip()]


def write_ndjson(path, rows):
    with open(path, "w") as f:
        for r in rows:
            f.write(json.dumps(r, sort_keys=True) + "\n")


# ---------------------------------------------------------------------------
# verdicts, known findings, evidence

def load_known(prop):
    if not os.path.exists(KNOWN):
        return []
    with open(KNOWN) as f:
        data = json.load(f)
    return [k for k in data.get("findings", []) if k["property"] == prop]


def classify(prop, rejected):
    """rejected: list of dicts with at least 'clause' and 'sig' (a short string that
    identifies the failing input family).  Returns (violations, known) where known is a
    dict finding-id -> list of rejected items."""
    known = [k for k in load_known(prop) if k.get("status") == "known"]
    viol, hit = [], {}
    for r in rejected:
        for k in known:
            m = k["match"]
            if ("clause" not in m or re.fullmatch(m["clause"], r["clause"])) and \
               ("sig" not in m or re.search(m["sig"], r["sig"])):
                hit.setdefault(k["id"], []).append(r)
                break
        else:
            viol.append(r)
    return viol, hit


def finish(prop, tier, seed, level, coverage, rejected, t0, assumptions=(), extra=None,
           replay_payload=None):
    """Print verdict lines, write evidence, return the exit code."""
    os.makedirs(EVID, exist_ok=True)
    os.makedirs(REPLAYS, exist_ok=True)
    viol, hit = classify(prop, rejected)
    known_all = {k["id"]: k for k in load_known(prop)}
    for kid, items in sorted(hit.items()):
        print("KNOWN-FINDING: property=%s %s [%s; %d observation(s) this run, e.g. %s]" %
              (prop, known_all[kid]["what"], kid, len(items), items[0]["sig"]))
    seen = set()
    n_out = 0
    for r in viol:
        key = (r["clause"], r["sig"])
        if key in seen:
            continue
        seen.add(key)
        if n_out < 20:
            path = os.path.join(REPLAYS, "%s-%s-%d.json" % (prop, tier, n_out))
            with open(path, "w") as f:
                json.dump({"property": prop, "clause": r["clause"], "sig": r["sig"],
                           "observation": r.get("obs")}, f, indent=1, sort_keys=True)
            print("VIOLATION property=%s replay=%s clause=%s %s" % (prop, path, r["clause"], r["sig"]))
        n_out += 1
    ev = {"property_id": prop, "tier": tier, "seed": seed, "level": level,
          "coverage": coverage, "assumptions": list(assumptions),
          "wall_s": round(time.time() - t0, 2), "violations": len(viol),
          "known_findings": {k: len(v) for k, v in hit.items()}}
    if extra:
        ev.update(extra)
    with open(os.path.join(EVID, prop + ".json"), "w") as f:
        json.dump(ev, f, indent=1, sort_keys=True)
    return 1 if viol else 0


TRACKED = []


def track(rejected):
    """remember a check's list of rejected observations, so that a later step that cannot run (no accepted observation
    left to build a canary from, because a defect made every observation fail) still leads to a report"""
    TRACKED.append(rejected)
    return rejected


def tracked_rejections():
    return [r for lst in TRACKED for r in lst]


def rng(seed, salt=""):
    return random.Random("%s/%s" % (seed, salt))
