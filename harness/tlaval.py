"""Parser / printer for TLA+ values as printed by TLC (-dump, -simulate, PrintT).

parse(text) -> python value: sequences -> list, sets -> frozenset-like list tagged
("set", [...]) is avoided: sets are returned as python `set` when hashable, else list;
records -> dict, functions (a :> b @@ c :> d) -> dict, strings -> str, ints -> int,
TRUE/FALSE -> bool.
"""
import re

_tok = re.compile(r'\s*(<<|>>|\|->|:>|@@|\[|\]|\{|\}|\(|\)|,|"(?:[^"\\]|\\.)*"|-?\d+|[A-Za-z_][A-Za-z_0-9]*)')


def tokenize(s):
    pos, out = 0, []
    n = len(s)
    while pos < n:
        m = _tok.match(s, pos)
        if not m:
            if s[pos:].strip() == '':
                break
            raise ValueError("bad TLA+ value near %r" % s[pos:pos + 40])
        out.append(m.group(1))
        pos = m.end()
    return out


def _freeze(v):
    if isinstance(v, list):
        return tuple(_freeze(x) for x in v)
    if isinstance(v, dict):
        return tuple(sorted((k, _freeze(x)) for k, x in v.items()))
    if isinstance(v, set):
        return frozenset(_freeze(x) for x in v)
    return v


class _P:
    def __init__(self, toks):
        self.t, self.i = toks, 0

    def peek(self):
        return self.t[self.i] if self.i < len(self.t) else None

    def eat(self, x=None):
        tok = self.t[self.i]
        if x is not None and tok != x:
            raise ValueError("expected %r got %r at %d" % (x, tok, self.i))
        self.i += 1
        return tok

    def value(self):
        tok = self.peek()
        if tok == '<<':
            self.eat()
            out = []
            while self.peek() != '>>':
                out.append(self.value())
                if self.peek() == ',':
                    self.eat()
            self.eat('>>')
            return out
        if tok == '{':
            self.eat()
            out = []
            while self.peek() != '}':
                out.append(self.value())
                if self.peek() == ',':
                    self.eat()
            self.eat('}')
            return SetVal(out)
        if tok == '[':
            self.eat()
            out = {}
            while self.peek() != ']':
                k = self.eat()
                self.eat('|->')
                out[k] = self.value()
                if self.peek() == ',':
                    self.eat()
            self.eat(']')
            return out
        if tok == '(':
            self.eat()
            out = {}
            while True:
                k = self.value()
                self.eat(':>')
                out[_freeze(k)] = self.value()
                if self.peek() == '@@':
                    self.eat()
                    continue
                break
            self.eat(')')
            return out
        self.eat()
        if tok[0] == '"':
            return bytes(tok[1:-1], 'utf-8').decode('unicode_escape')
        if tok == 'TRUE':
            return True
        if tok == 'FALSE':
            return False
        if re.fullmatch(r'-?\d+', tok):
            return int(tok)
        return tok  # model value / identifier


class SetVal(list):
    """A TLA+ set, kept as a list (elements may be unhashable)."""


def parse(text):
    p = _P(tokenize(text))
    v = p.value()
    if p.i != len(p.t):
        raise ValueError("trailing tokens after TLA+ value")
    return v


def to_tla(v):
    if isinstance(v, bool):
        return "TRUE" if v else "FALSE"
    if isinstance(v, int):
        return str(v)
    if isinstance(v, str):
        return '"' + v.replace('\\', '\\\\').replace('"', '\\"') + '"'
    if isinstance(v, SetVal) or isinstance(v, (set, frozenset)):
        return "{" + ", ".join(to_tla(x) for x in v) + "}"
    if isinstance(v, (list, tuple)):
        return "<<" + ", ".join(to_tla(x) for x in v) + ">>"
    if isinstance(v, dict):
        return "[" + ", ".join("%s |-> %s" % (k, to_tla(x)) for k, x in v.items()) + "]"
    raise TypeError(type(v))


_state_hdr = re.compile(r'^State (\d+):', re.M)


def read_dump(path):
    """Yield one dict per state from a `tlc -dump file` output."""
    with open(path) as f:
        txt = f.read()
    parts = _state_hdr.split(txt)
    # parts = [pre, num, body, num, body...]
    for k in range(1, len(parts), 2):
        yield parse_state(parts[k + 1])


_conj = re.compile(r'^/\\ ([A-Za-z_][A-Za-z_0-9]*) = ', re.M)


def parse_state(body):
    body = body.strip()
    out = {}
    ms = list(_conj.finditer(body))
    if not ms:
        # single-variable state:  x = value
        m = re.match(r'([A-Za-z_][A-Za-z_0-9]*) = ', body)
        out[m.group(1)] = parse(body[m.end():])
        return out
    for a, m in enumerate(ms):
        end = ms[a + 1].start() if a + 1 < len(ms) else len(body)
        out[m.group(1)] = parse(body[m.end():end])
    return out


def read_simulate(path):
    """Parse one file written by `tlc -simulate file=...`: list of (action, state)."""
    with open(path) as f:
        txt = f.read()
    out = []
    for m in re.finditer(r'\\\* <(\w+)[^\n]*>\nSTATE_(\d+) ==[ ]*\n(.*?)(?=\n\s*\n\\\*|\n=====|\Z)', txt, re.S):
        out.append((m.group(1), parse_state(m.group(3))))
    return out
