"""Thin runner for TLC: timeouts, scratch metadir, statistics and coverage parsing."""
import os
import re
import shutil
import subprocess
import time

JAR = "/opt/veriftools/tla/tla2tools.jar:/opt/veriftools/tla/CommunityModules-deps.jar"
SPEC = os.path.join(os.path.dirname(os.path.dirname(os.path.abspath(__file__))), "spec")


class TLCError(Exception):
    pass


def run(module, cfg=None, workers=1, timeout=600, env=None, work=None,
        dump=None, simulate=None, depth=None, seed=None, coverage=False,
        heap="4g", check=True, extra=(), spec_dir=SPEC, deque=False):
    """Run TLC on spec/<module>.tla with spec/<cfg>.cfg.  Returns a dict:
    out, rc, generated, distinct, depth, wall_s, coverage (dict action->count)."""
    assert work, "scratch directory required"
    os.makedirs(work, exist_ok=True)
    meta = os.path.join(work, "meta-%s-%d" % (module, int(time.time() * 1000) % 10 ** 9))
    java = ["java", "-Xmx" + heap, "-Xss64m"]
    java.append("-XX:+UseSerialGC" if workers == 1 else "-XX:+UseParallelGC")
    if deque:
        java.append("-Dtlc2.tool.queue.IStateQueue=StateDeque")
    cmd = java + ["-cp", JAR, "tlc2.TLC", "-workers", str(workers), "-metadir", meta,
                  "-noGenerateSpecTE", "-config", os.path.join(spec_dir, (cfg or module) + ".cfg")]
    if dump:
        cmd += ["-dump", dump]
    if simulate:
        cmd += ["-simulate", simulate]
    if depth:
        cmd += ["-depth", str(depth)]
    if seed is not None:
        cmd += ["-seed", str(seed)]
    if coverage:
        cmd += ["-coverage", "1"]
    cmd += list(extra)
    cmd.append(os.path.join(spec_dir, module + ".tla"))
    e = dict(os.environ)
    e.update(env or {})
    t0 = time.time()
    try:
        p = subprocess.run(cmd, stdout=subprocess.PIPE, stderr=subprocess.STDOUT, env=e,
                           timeout=timeout, cwd=work, text=True)
        out, rc = p.stdout, p.returncode
    except subprocess.TimeoutExpired as ex:
        subprocess.run(["pkill", "-f", meta], check=False)
        out = (ex.stdout or b"")
        out = out.decode() if isinstance(out, bytes) else out
        rc = -9
    wall = time.time() - t0
    shutil.rmtree(meta, ignore_errors=True)
    res = {"out": out, "rc": rc, "wall_s": round(wall, 2), "cmd": " ".join(cmd),
           "generated": 0, "distinct": 0, "depth": 0, "coverage": {}}
    m = re.search(r'(\d+) states generated, (\d+) distinct states found', out)
    if m:
        res["generated"], res["distinct"] = int(m.group(1)), int(m.group(2))
    m = re.search(r'The depth of the complete state graph search is (\d+)', out)
    if m:
        res["depth"] = int(m.group(1))
    if coverage:
        for m in re.finditer(r'<(\w+) line \d+, col \d+ to line \d+, col \d+ of module \w+>: (\d+):(\d+)', out):
            a = res["coverage"].setdefault(m.group(1), [0, 0])
            a[0] += int(m.group(2))
            a[1] += int(m.group(3))
    if check and rc != 0:
        raise TLCError("TLC failed rc=%s on %s/%s\n%s" % (rc, module, cfg, out[-4000:]))
    return res


def sany(path):
    p = subprocess.run(["java", "-cp", JAR, "tla2sany.SANY", path], stdout=subprocess.PIPE,
                       stderr=subprocess.STDOUT, text=True, cwd=os.path.dirname(path))
    ok = p.returncode == 0 and "Semantic errors" not in p.stdout and "***Parse Error***" not in p.stdout \
        and "Fatal errors" not in p.stdout
    return ok, p.stdout
