"""Entry point: ./check <id> [--tier quick|thorough] [--replay PATH]."""
import argparse
import importlib
import os
import sys
import time
import traceback

from harness import core


def main():
    ap = argparse.ArgumentParser()
    ap.add_argument("prop")
    ap.add_argument("--tier", default=os.environ.get("VERIF_TIER") or "quick",
                    choices=["quick", "thorough"])
    ap.add_argument("--replay", default=None)
    a = ap.parse_args()
    seed = int(os.environ.get("VERIF_SEED") or 0)
    try:
        mod = importlib.import_module("harness.checks.%s" % a.prop.lower())
    except ImportError:
        traceback.print_exc()
        print("no check for", a.prop)
        return 2
    t0 = time.time()
    try:
        if a.replay:
            return mod.replay(a.replay)
        return mod.run(a.tier, seed, t0)
    except (core.Machinery, StopIteration) as e:
        rej = core.tracked_rejections()
        if not a.replay and rej and (isinstance(e, StopIteration) or ("canary" in str(e) and "no " in str(e))):
            # the self-test of the judge found no accepted observation to corrupt because the observations were rejected:
            # that is a finding about the code, not a failure of the machinery - report what was rejected
            print("NOTE %s: canary step skipped (%s); %d rejected observation(s) reported" % (a.prop, e or "no candidate", len(rej)))
            cov = {"states": 0, "transitions": 0, "traces_validated_against_impl": 0,
                   "note": "run ended at the canary step: no accepted observation to corrupt; rejected observations reported"}
            return core.finish(a.prop, a.tier, seed, "model_checking", cov, rej, t0, [])
        print("MACHINERY-FAILURE %s: %s" % (a.prop, e))
        return 2
    except Exception:
        traceback.print_exc()
        print("MACHINERY-FAILURE %s: harness exception" % a.prop)
        return 2


if __name__ == "__main__":
    sys.exit(main())
