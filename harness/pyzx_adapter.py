"""In-process adapter giving the installed pyzx (0.10.x) the interface the pinned DisCoPy was written against:
list-valued graph.inputs / graph.outputs, float phases, edge_type of a non-edge = 0.  Installed by the harness
(not by DisCoPy), as the property file prescribes."""
from fractions import Fraction

import pyzx
from pyzx.graph.graph_s import GraphS


class CallList(list):
    def __call__(self):
        return tuple(self)


class CompatGraph(GraphS):
    def __init__(self):
        super().__init__()
        self.__dict__['inputs'] = CallList()
        self.__dict__['outputs'] = CallList()

    def set_inputs(self, inputs):
        self.__dict__['inputs'] = CallList(inputs)

    def set_outputs(self, outputs):
        self.__dict__['outputs'] = CallList(outputs)

    def add_vertex(self, ty=0, qubit=-1, row=-1, phase=None, **kw):
        if phase is not None and not isinstance(phase, Fraction):
            phase = Fraction(phase).limit_denominator(1 << 20)
        return super().add_vertex(ty, qubit, row, phase, **kw)

    def edge_type(self, e):
        v1, v2 = e
        try:
            return self.graph[v1][v2]
        except KeyError:
            return 0

    def phase(self, v):
        return float(super().phase(v))


_installed = [False]


def install():
    if not _installed[0]:
        pyzx.Graph = lambda *a, **k: CompatGraph()
        _installed[0] = True


def build(g):
    """abstract graph (spec/Pyzx.tla) -> CompatGraph with exactly the vertex ids 0..n-1"""
    from pyzx import VertexType, EdgeType
    G = CompatGraph()
    ty = {0: VertexType.BOUNDARY, 1: VertexType.Z, 2: VertexType.X}
    for k, v in enumerate(g["vs"]):
        vid = G.add_vertex(ty[v["ty"]], phase=Fraction(v["ph"], 8) if v["ty"] else None)
        assert vid == k
    for e in g["es"]:
        G.add_edge((e["u"], e["v"]), EdgeType.HADAMARD if e["h"] else EdgeType.SIMPLE)
    G.set_inputs(list(g["ins"]))
    G.set_outputs(list(g["outs"]))
    return G


class OffGrid(Exception):
    pass


def project(G, scalar_box=None):
    """CompatGraph -> abstract graph; vertex ids are ranked densely in increasing order"""
    import math
    from pyzx import VertexType, EdgeType
    vids = sorted(G.vertices())
    rank = {v: k for k, v in enumerate(vids)}
    tymap = {VertexType.BOUNDARY: 0, VertexType.Z: 1, VertexType.X: 2}
    vs = []
    for v in vids:
        t = tymap[G.type(v)]
        ph = Fraction(GraphS.phase(G, v)) * 8 if t else Fraction(0)
        if ph.denominator != 1:
            raise OffGrid("vertex phase %r" % (GraphS.phase(G, v),))
        vs.append({"ty": t, "ph": int(ph) % 16})
    es = []
    for e in G.edges():
        u, v = G.edge_st(e)
        es.append({"u": rank[min(u, v)], "v": rank[max(u, v)], "h": 1 if G.edge_type((u, v)) == EdgeType.HADAMARD else 0})
    es.sort(key=lambda e: (e["u"], e["v"]))
    z = complex(G.scalar.to_number())
    sc = None
    for s in range(0, 14):
        re, im = z.real * math.sqrt(2) ** s, z.imag * math.sqrt(2) ** s
        if abs(re - round(re)) < 1e-9 and abs(im - round(im)) < 1e-9:
            sc = {"re": int(round(re)), "im": int(round(im)), "s": s}
            break
    if sc is None:
        raise OffGrid("scalar %r" % (z,))
    return {"vs": vs, "es": es, "ins": [rank[v] for v in G.inputs], "outs": [rank[v] for v in G.outputs], "sc": sc}
