"""Diagrams of the semantic classes (circuit, zx, cartesian, biclosed, tensor) for the class legs of C01 and C02.
The pools are states of the TLC models of the other checks (descriptors are JSON values so that a replay file can
rebuild the same real diagram); build() turns a descriptor into the real diagram."""
import os

from harness import core, tlaval

CLASSES = ("circuit", "zx", "cartesian", "biclosed", "tensor", "grammar")


def pools(work, tier, seed, n=None):
    rnd = core.rng(seed, "classgen")
    n = n or (120 if tier == "quick" else 3000)
    out = {}
    cq = core.run_model("MC_CQ", work, spec="MSpec", constants={"MaxQ": 0, "MaxLayers": 0, "Phases": "<- PhasesQ",
                                                                 "MaxWeight": 4, "MaxMLayers": 2}, dump=True, tag="_cls")
    mcs = [st["mc"] for st in tlaval.read_dump(cq["dump"]) if st["mc"]["layers"]]
    os.remove(cq["dump"])
    # every one-box circuit (each box of the menu on each admissible type) and a sample of the deeper ones
    single = [mc for mc in mcs if len(mc["layers"]) == 1]
    deeper = [mc for mc in mcs if len(mc["layers"]) > 1]
    out["circuit"] = [{"cls": "circuit", "src": mc} for mc in single + rnd.sample(deeper, min(n, len(deeper)))]
    # a mixed scalar with a complex value (not a physical weight, so it is kept out of the CQ menu that C12 measures;
    # as a box of the circuit class it must obey the dagger laws like any other)
    from harness.checks.c13 import _mg
    cms = _mg("mscalar", re=0, im=1, s=1)
    out["circuit"] += [{"cls": "circuit", "src": {"ty": ["q"], "layers": [{"g": cms, "off": 0}]}},
                       {"cls": "circuit", "src": {"ty": ["q"], "layers": [{"g": _mg("H"), "off": 0}, {"g": cms, "off": 1}]}}]
    zx = core.run_model("MC_ZX", work, spec="ZSpec", constants={"MaxQ": 0, "MaxLayers": 0, "Phases": "<- PhasesQ", "Halving": "TRUE",
                                                                 "ZMaxW": 2, "ZMaxBoxes": 2}, dump=True, tag="_cls")
    zds = [st["zd"] for st in tlaval.read_dump(zx["dump"]) if st["zd"]["layers"]]
    os.remove(zx["dump"])
    zsingle = [zd for zd in zds if len(zd["layers"]) == 1]
    zdeeper = [zd for zd in zds if len(zd["layers"]) > 1]
    out["zx"] = [{"cls": "zx", "src": zd} for zd in zsingle + rnd.sample(zdeeper, min(n, len(zdeeper)))]
    ca = core.run_model("MC_Cartesian", work, constants={"MaxBoxes": 3, "MaxWidth": 3, "Inputs": "<- InputsV"}, dump=True, tag="_cls")
    cds = [st["d"] for st in tlaval.read_dump(ca["dump"]) if st["d"]["boxes"]]
    os.remove(ca["dump"])
    out["cartesian"] = [{"cls": "cartesian", "src": d, "var": k % 2} for k, d in enumerate(rnd.sample(cds, min(n, len(cds))))]
    bc = core.run_model("MC_Biclosed", work, constants={"Depth": 1}, dump=True, tag="_cls")
    insts = [st["inst"] for st in tlaval.read_dump(bc["dump"])]
    os.remove(bc["dump"])
    out["biclosed"] = [{"cls": "biclosed", "src": inst, "var": k % 2} for k, inst in enumerate(rnd.sample(insts, min(n, len(insts))))]
    ten = []
    for k in range(min(n, 200)):
        ten.append({"cls": "tensor", "var": k % 2,
                    "src": {"a": [rnd.choice([1, 2, 3]) for _ in range(rnd.randrange(0, 3))],
                            "b": [rnd.choice([2, 3]) for _ in range(rnd.randrange(0, 3))]}})
    out["tensor"] = ten
    # pregroup sentences: diagrams whose boxes are grammar Words (their constructor takes the codomain first)
    n_, s_ = [[1, 0]], [[2, 0]]
    tv = [[1, 1], [2, 0], [1, -1]]          # n.r @ s @ n.l
    iv = [[1, 1], [2, 0]]                   # n.r @ s
    adj = [[1, 0], [1, -1]]                 # n @ n.l
    out["grammar"] = [{"cls": "grammar", "src": {"words": w, "parse": p}} for p in (0, 1) for w in (
        [["Alice", n_], ["loves", tv], ["Bob", n_]], [["Alice", n_], ["sleeps", iv]],
        [["big", adj], ["Bob", n_], ["sleeps", iv]], [["Alice", n_], ["loves", tv], ["big", adj], ["Bob", n_]],
        [["Bob", n_]])]
    return out


def build(desc):
    """the real diagram of a descriptor, or None when the class has no such value"""
    cls, src = desc["cls"], desc["src"]
    if cls == "circuit":
        from harness import qadapt
        return qadapt.mixed_circuit(src)
    if cls == "zx":
        from harness import qadapt
        return qadapt.zx_diagram(src)
    if cls == "cartesian":
        from harness.checks import c19
        return c19.build(src, c19.boxes(), desc.get("var", 0))
    if cls == "biclosed":
        from discopy import biclosed
        from harness.checks import c18
        box = c18.make_box(src)
        if box is None:
            return None
        d = biclosed.Id(box.dom) >> box >> biclosed.Id(box.cod)
        return d @ biclosed.Id(box.dom[:1]) if desc.get("var") else d
    if cls == "grammar":
        from discopy import rigid
        from discopy.grammar import pregroup
        names = {1: "n", 2: "s"}
        words = [pregroup.Word(w, rigid.Ty(*[rigid.Ob(names[a[0]], a[1]) for a in t])) for w, t in src["words"]]
        if src.get("parse"):
            try:
                return pregroup.eager_parse(*words, target=rigid.Ty("s"))
            except NotImplementedError:
                pass
        return rigid.Id(rigid.Ty()).tensor(*words)
    if cls == "tensor":
        import numpy as np
        from discopy import tensor
        from discopy.tensor import Dim
        a, b = Dim(*src["a"]), Dim(*src["b"])
        size = int(np.prod(list(a) + list(b) + [1]))
        f = tensor.Box("f", a, b, list(range(size)))
        g = tensor.Box("g", b, a, list(range(size)))
        if desc.get("var"):
            return f @ tensor.Id(Dim(2)) >> g @ tensor.Id(Dim(2))
        return tensor.Id(a) @ tensor.Spider(1, 2, 2) >> f @ tensor.Id(Dim(2, 2))
    raise ValueError(cls)
