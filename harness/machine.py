"""Spec -> code replay for DiagramMachine: every dumped state is rebuilt in the real
library and a menu of API calls is made on it; chains (histories) are replayed from
TLC's simulated behaviours.  Output: ndjson histories for Trace_Diagram.tla."""
import json
import multiprocessing as mp
import os

from harness import tlaval
from harness.project import proj_diagram, EMPTY_OBS, DiagramSink

NONE = -1000


CALL_LIMIT = float(os.environ.get("VERIF_CALL_LIMIT", "8"))      # CPU seconds per API call, measured in the calling process (immune
                                                                   # to machine load); the slowest healthy call of a run is in the evidence
SLOWEST = [0.0]
TIMEOUT_BUDGET = 6      # per worker process: once spent, the normal-form blocks of further states are not run (the
                        # timeouts already recorded are violations; the run must still end in bounded time)
TIMEOUTS = [0]


class CallTimeout(BaseException):
    """the call did not return within CALL_LIMIT (BaseException: library code catching Exception cannot swallow it)"""


class time_limit:
    def __init__(self, seconds):
        self.seconds = seconds

    def __enter__(self):
        import signal

        def handler(signum, frame):
            raise CallTimeout()
        import time
        self.t0 = time.process_time()
        self.old = signal.signal(signal.SIGVTALRM, handler)
        signal.setitimer(signal.ITIMER_VIRTUAL, self.seconds)

    def __exit__(self, *exc):
        import signal
        import time
        signal.setitimer(signal.ITIMER_VIRTUAL, 0)
        signal.signal(signal.SIGVTALRM, self.old)
        SLOWEST[0] = max(SLOWEST[0], time.process_time() - self.t0)
        return False


def exc_name(e):
    return "Timeout" if isinstance(e, CallTimeout) else type(e).__name__


def call(op, i=0, j=0, g=0, p=0, ref=0):
    return {"op": op, "i": i, "j": j, "g": g, "p": p, "ref": ref, "aux": 0}


class Replayer:
    def __init__(self, adapter, lib, max_steps=60):
        self.A = adapter
        self.lib_abs = lib
        self.lib = [adapter.box(b) for b in lib]
        self.max_steps = max_steps

    # -- one API call on a real diagram ---------------------------------
    def proj(self, res):
        return self.A.proj(res) if hasattr(self.A, "proj") else proj_diagram(res, self.A.names)

    def apply(self, real, c):
        m = self.A.m
        op, i, j, g = c["op"], c["i"], c["j"], c["g"]
        if self.A.cls == "cat":
            if op not in self.A.OPS:
                raise ValueError("%s is not an operation of the free category" % op)
            if op == "gen":
                if i != 0:
                    raise ValueError("offsets are zero in the free category")
                return real >> self.lib[g - 1]
            if op == "ctor":
                b = self.lib[g - 1]
                return m.Arrow(real.dom, b.cod, real.boxes + [b])
        if op == "gen":
            b = self.lib[g - 1]
            return real >> m.Id(real.cod[:i]) @ b @ m.Id(real.cod[i + len(b.dom):])
        if op == "ctor":
            b = self.lib[g - 1]
            cod = real.cod[:i] @ b.cod @ real.cod[i + len(b.dom):]
            return type(real)(real.dom, cod, real.boxes + [b], real.offsets + [i]) \
                if type(real).__name__ == "Diagram" else \
                m.Diagram(real.dom, cod, real.boxes + [b], real.offsets + [i])
        if op == "retype":
            b = self.lib[g - 1]
            ty = real.dom[:0] if j == 1 else (b.cod if i == 0 else b.dom)
            dom, cod = (real.dom, ty) if i == 0 else (ty, real.cod)
            return self.A.construct(real, dom, cod)
        if op == "then":
            return real >> self.lib[g - 1]
        if op == "thenSelf":
            return real >> real
        if op == "tensorR":
            return real @ self.lib[g - 1]
        if op == "tensorL":
            return self.lib[g - 1] @ real
        if op == "tensorSelf":
            return real @ real
        if op == "dagger":
            return real[::-1] if g == 0 else real.dagger()
        if op == "slice":
            return real[(None if i == NONE else i):(None if j == NONE else j)]
        if op == "rslice":
            return real[(None if i == NONE else i):(None if j == NONE else j):-1]
        if op == "index":
            return real[i]
        if op == "interchange":
            return real.interchange(i, j, left=bool(g))
        if op == "normal_form":
            return real.normal_form(left=bool(g))
        if op == "foliate":
            return real.foliation().flatten()
        raise ValueError(op)

    def observe(self, real, c):
        """Make the call under a wall-clock limit; returns (record, real result or None)."""
        with time_limit(CALL_LIMIT):
            rec, res = self._observe(real, c)
        if rec["exc"] == "Timeout":
            TIMEOUTS[0] += 1
        return rec, res

    def _observe(self, real, c):
        rec = dict(c)
        rec["steps"] = []
        if c["op"] == "normalize":
            steps, exc = [], ""
            try:
                for k, s in enumerate(real.normalize(left=bool(c["g"]))):
                    steps.append(s)
                    if k + 1 >= self.max_steps:
                        exc = "Truncated"
                        break
            except (Exception, CallTimeout) as e:
                exc = exc_name(e)
            rec["steps"] = [self.proj(s) for s in steps]
            rec["exc"], rec["res"] = exc, EMPTY_OBS
            return rec, (steps[-1] if steps else real)
        try:
            res = self.apply(real, c)
            rec["exc"], rec["res"] = "", self.proj(res)
            if c["op"] == "foliate":
                rec["aux"] = int(real.depth())
            return rec, res
        except (Exception, CallTimeout) as e:
            rec["exc"], rec["res"] = exc_name(e), EMPTY_OBS
            return rec, None

    # -- the menu of calls made on every state --------------------------
    def menu(self, dabs, rnd, full=True):
        n, w = len(dabs["boxes"]), len(dabs["cod"])
        L = len(self.lib)
        out = []
        gens = range(1, L + 1)
        if self.A.cls == "cat":
            for g in gens:
                out += [call("gen", g=g), call("ctor", g=g), call("then", g=g), call("retype", i=0, g=g), call("retype", i=1, g=g)]
            out += [call("thenSelf"), call("dagger"), call("dagger", g=1)]
            rng_ = [NONE] + list(range(-(n + 1), n + 2))
            out += [call("slice", i=i, j=j) for i in rng_ for j in rng_]
            out += [call("rslice", i=i, j=j) for i in rng_ for j in rng_]
            out += [call("index", i=i) for i in range(-(n + 1), n + 1)]
            return out
        for g in gens:
            for o in range(0, w + 1):
                out.append(call("gen", i=o, g=g))
            for o in range(0, w + 2):
                out.append(call("ctor", i=o, g=g))
            out.append(call("then", g=g))
            out.append(call("tensorR", g=g))
            out.append(call("tensorL", g=g))
            for side in (0, 1):
                out.append(call("retype", i=side, g=g))
        out += [call("retype", i=0, j=1, g=1), call("retype", i=1, j=1, g=1)]
        out += [call("thenSelf"), call("tensorSelf"), call("dagger"), call("dagger", g=1)]
        rng_ = [NONE] + list(range(-(n + 1), n + 2))
        for i in rng_:
            for j in rng_:
                out.append(call("slice", i=i, j=j))
                out.append(call("rslice", i=i, j=j))
        for i in range(-(n + 1), n + 1):
            out.append(call("index", i=i))
        for i in range(-1, n + 1):
            for j in range(-1, n + 1):
                for l in (0, 1):
                    out.append(call("interchange", i=i, j=j, g=l))
        if not full:
            out = rnd.sample(out, min(len(out), 40))
        return out

    def history(self, dabs, rnd, how, full=True):
        """All menu calls on the state, then the normal-form block (C06):
        normal_form of the state, of its normal form, and of each neighbour."""
        real = self.A.build(dabs, how)
        calls = []
        neighbours = []
        for c in self.menu(dabs, rnd, full):
            rec, res = self.observe(real, c)
            calls.append(rec)
            if c["op"] == "interchange" and res is not None and abs(c["i"] - c["j"]) == 1:
                neighbours.append((len(calls), res))
        for l in (0, 1):
            if TIMEOUTS[0] >= TIMEOUT_BUDGET or self.A.cls == "cat":
                break
            rec, nf = self.observe(real, call("normal_form", g=l))
            calls.append(rec)
            a = len(calls)
            if nf is not None:
                rec2, _ = self.observe(nf, call("normal_form", g=l, p=a, ref=a))
                calls.append(rec2)
            for idx, nb in neighbours:
                rec3, _ = self.observe(nb, call("normal_form", g=l, p=idx, ref=a))
                calls.append(rec3)
            rec4, _ = self.observe(real, call("normalize", g=l))
            calls.append(rec4)
        if self.A.cls == "monoidal":
            rec5, _ = self.observe(real, call("foliate"))
            calls.append(rec5)
        return {"d": dabs, "calls": calls}

    def family(self, d0, walk):
        """Long instances (spirals): d0 is the family's seed, walk a list of abstract diagrams each one
        admissible interchange away from the previous (a TLC behaviour of MC_Spiral).  Calls:
        normal_form(seed); the interchanges of the walk; normalize + normal_form of the end point,
        the latter compared with the seed's normal form (same class) and with the last yielded step."""
        real = self.A.build(d0, 1)
        calls = []
        nf0 = {}
        for l in (0, 1):
            rec, _ = self.observe(real, call("normal_form", g=l))
            calls.append(rec)
            nf0[l] = len(calls)
        cur, cur_idx, cur_abs = real, 0, d0
        for nxt in walk:
            pos = [k for k in range(len(nxt["boxes"])) if nxt["boxes"][k] != cur_abs["boxes"][k]
                   or nxt["offs"][k] != cur_abs["offs"][k]]
            if not pos:
                continue
            pidx = pos[0]
            done = False
            for l in (0, 1):
                rec, res = self.observe(cur, call("interchange", i=pidx, j=pidx + 1, g=l, p=cur_idx))
                if res is not None and {k: rec["res"][k] for k in ("dom", "cod", "boxes", "offs")} == nxt:
                    calls.append(rec)
                    cur, cur_idx, cur_abs, done = res, len(calls), nxt, True
                    break
            if not done:
                calls.append(rec)      # judged by J05; the walk stops here
                break
        for l in (0, 1):
            rec, _ = self.observe(cur, call("normalize", g=l, p=cur_idx))
            calls.append(rec)
            a = len(calls)
            rec2, _ = self.observe(cur, call("normal_form", g=l, p=cur_idx, ref=a))
            calls.append(rec2)
            rec3, _ = self.observe(cur, call("normal_form", g=l, p=cur_idx, ref=nf0[l]))
            calls.append(rec3)
        return {"d": d0, "calls": calls}

    def chain(self, d0, steps):
        """Replay one simulated behaviour: steps = list of call records (from `last`)."""
        real = self.A.build(d0, 1)
        calls, cur = [], 0
        for c in steps:
            if self.A.cls == "cat" and c["op"] not in self.A.OPS:
                continue        # e.g. normal_form of a path: a stuttering step of the model, not an operation of cat
            c = dict(c)
            c.update(p=cur, ref=0, aux=0)
            rec, res = self.observe(real, c)
            calls.append(rec)
            if res is not None:
                real, cur = res, len(calls)
        return {"d": d0, "calls": calls}


def _worker(args):
    adapter_cls, lib, states, seed, out_path, hook_path, full = args
    import random
    A = adapter_cls()
    sink = DiagramSink(A.names).install()
    R = Replayer(A, lib)
    rnd = random.Random(seed)
    n = 0
    with open(out_path, "w") as f:
        for k, st in enumerate(states):
            if "walk" in st:
                R.max_steps = 2000
                h = R.family(st["d"], st["walk"])
            elif "chain" in st:
                h = R.chain(st["d"], st["chain"])
            else:
                h = R.history(st["d"], rnd, how=k % 2, full=full)
            n += len(h["calls"])
            f.write(json.dumps(h, sort_keys=True) + "\n")
    sink.uninstall()
    with open(hook_path, "w") as f:
        for rec in sink.seen.values():
            f.write(json.dumps(rec, sort_keys=True) + "\n")
    return n, sink.total, len(sink.seen), sink.errors[:3], SLOWEST[0]


def replay(adapter_cls, lib, states, work, seed, procs=16, full=True, tag="replay"):
    """states: list of {'d': abstract diagram} or {'d':..., 'chain': [...]}.  Returns
    (list of history files, list of hook files, stats)."""
    procs = max(1, min(procs, len(states)))
    chunks = [states[k::procs] for k in range(procs)]
    args = [(adapter_cls, lib, chunks[k], seed * 1000 + k,
             os.path.join(work, "%s-%d.ndjson" % (tag, k)),
             os.path.join(work, "%s-hook-%d.ndjson" % (tag, k)), full) for k in range(procs)]
    ctx = mp.get_context("fork")
    with ctx.Pool(procs) as pool:
        res = pool.map(_worker, args)
    stats = {"calls": sum(r[0] for r in res), "constructed": sum(r[1] for r in res),
             "distinct_constructed": sum(r[2] for r in res), "hook_errors": [e for r in res for e in r[3]],
             "slowest_call_cpu_s": round(max(r[4] for r in res), 3), "call_limit_cpu_s": CALL_LIMIT}
    return [a[4] for a in args], [a[5] for a in args], stats


def states_from_dump(path, var="d"):
    return [{"d": st[var]} for st in tlaval.read_dump(path)]
