---------------------------- MODULE MC_Monoidal ----------------------------
(* Exhaustive instance of DiagramMachine for the free monoidal category.   *)
EXTENDS SigMonoidal, Json, IOUtils
CONSTANTS MaxBoxes, MaxWidth
VARIABLES d, last
INSTANCE DiagramMachine WITH Sig <- SigM, Doms <- DomsM
\* the generator library is handed to the replayer (one source of truth)
ASSUME JsonSerialize(IOEnv.LIB_OUT, Lib)
=============================================================================
