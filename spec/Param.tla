--------------------------------- MODULE Param ---------------------------------
(***************************************************************************)
(* Parametrised boxes (C14, C15).  A phase (or scalar datum) is an affine  *)
(* FORM  [c0, cx, cy]  = c0 + cx * x + cy * y  over two symbols, in units  *)
(* of 1/8 turn (resp. 1/8 for scalar data) with integer coefficients.      *)
(* A substitution step is a sequence of pairs [v |-> "x" | "y", f |-> form]*)
(* applied in order (a number is a constant form).  A parametrised circuit *)
(* is a mixed circuit of CQ.tla whose boxes carry a form in field pf and a *)
(* flag par (1 = the box is parametrised by pf).                           *)
(***************************************************************************)
EXTENDS CQ
Form(c0, cx, cy) == [c0 |-> c0, cx |-> cx, cy |-> cy]
Const(v) == Form(v, 0, 0)
FS(f) == (IF f.cx # 0 THEN {"x"} ELSE {}) \cup (IF f.cy # 0 THEN {"y"} ELSE {})
Sub1(f, p) == IF p.v = "x" THEN Form(f.c0 + f.cx * p.f.c0, f.cx * p.f.cx, f.cy + f.cx * p.f.cy)
              ELSE Form(f.c0 + f.cy * p.f.c0, f.cx + f.cy * p.f.cx, f.cy * p.f.cy)
RECURSIVE SubSeqF(_, _, _)
SubSeqF(f, ps, k) == IF k > Len(ps) THEN f ELSE SubSeqF(Sub1(f, ps[k]), ps, k + 1)
SubsForm(f, ps) == SubSeqF(f, ps, 1)
\* boxes
SubsBox(g, ps) == IF g.par = 1 THEN [g EXCEPT !.pf = SubsForm(g.pf, ps)] ELSE g
SubsCirc(pc, ps) == [pc EXCEPT !.layers = [k \in 1..Len(pc.layers) |-> [pc.layers[k] EXCEPT !.g = SubsBox(pc.layers[k].g, ps)]]]
RECURSIVE SubsChain(_, _, _)
SubsChain(pc, chain, k) == IF k > Len(chain) THEN pc ELSE SubsChain(SubsCirc(pc, chain[k]), chain, k + 1)
FSBox(g) == IF g.par = 1 THEN FS(g.pf) ELSE {}
FSCirc(pc) == UNION { FSBox(pc.layers[k].g) : k \in 1..Len(pc.layers) }
Closed(pc) == FSCirc(pc) = {}
\* a closed parametrised circuit as a plain mixed circuit: rotations take their phase from the form,
\* scalars their value c0/8 = c0 / sqrt2^6
\* a square-root scalar sqrt(form) (gates.Sqrt) is an amplitude scalar; its ground value lies in the ring when the
\* form's value c0/8 is a power of two:  sqrt(2^e / 8) = sqrt2^(e - 3)
SqrtVal(c0) == CASE c0 = 1 -> <<1, 3>> [] c0 = 2 -> <<1, 2>> [] c0 = 4 -> <<1, 1>> [] c0 = 8 -> <<1, 0>>
                 [] c0 = 16 -> <<2, 1>> [] c0 = 32 -> <<2, 0>>          \* <<re, s>> : re / sqrt2^s
Ground(g) == IF g.par = 0 THEN g
             ELSE IF g.k = "sqrt" /\ g.pf.c0 > 0 THEN [g EXCEPT !.k = "scalar", !.re = SqrtVal(g.pf.c0)[1], !.im = 0, !.s = SqrtVal(g.pf.c0)[2]]
             \* the principal root of a negative number:  sqrt(-a) = i sqrt(a)
             ELSE IF g.k = "sqrt" THEN [g EXCEPT !.k = "scalar", !.re = 0, !.im = SqrtVal(0 - g.pf.c0)[1], !.s = SqrtVal(0 - g.pf.c0)[2]]
             ELSE IF g.k \in {"scalar", "mscalar"} THEN [g EXCEPT !.re = g.pf.c0, !.im = 0, !.s = 6]
             ELSE [g EXCEPT !.ph = g.pf.c0]
GroundCirc(pc) == [ty |-> pc.ty, layers |-> [k \in 1..Len(pc.layers) |-> [pc.layers[k] EXCEPT !.g = Ground(pc.layers[k].g)]]]
\* what must not change under substitution: everything but the form
Skeleton(pc) == [ty |-> pc.ty, layers |-> [k \in 1..Len(pc.layers) |-> [pc.layers[k] EXCEPT !.g.pf = Const(0)]]]

(***************************************************************************)
(* Model: histories of substitutions on parametrised circuits.             *)
(***************************************************************************)
CONSTANTS PMaxLayers, PMaxSteps
VARIABLES pc, hist
PGate(k, f) == [MG(k, 0, 0, 0, <<>>, <<>>) EXCEPT !.par = 1, !.pf = f]
Forms == { Form(0, 1, 0), Form(0, 0, 1), Form(1, 2, 0), Form(0, 1, 1), Form(3, 0, 0 - 1), Form(2, 0, 0) }
ParamMenu == { PGate(k, f) : k \in {"Rx", "Ry", "Rz", "CU1", "CRz", "CRx"}, f \in Forms }
             \cup { [PGate("Rz", f) EXCEPT !.dg = 1] : f \in { Form(0, 1, 0), Form(1, 0, 2) } }
             \cup { PGate("scalar", f) : f \in { Form(0, 1, 0), Form(4, 0, 2) } }
             \cup { PGate("mscalar", f) : f \in { Form(0, 0, 1), Form(2, 1, 0), Form(1, 2, 0 - 1) } }
PlainMenu == { [MG(k, 0, 0, 0, <<>>, <<>>) EXCEPT !.par = 0, !.pf = Const(0)] : k \in {"H", "CX", "S"} }
             \cup { [MG("Measure", 1, 1, 0, <<>>, <<>>) EXCEPT !.par = 0, !.pf = Const(0)],
                    [MG("Discard", 0, 0, 0, <<"q">>, <<>>) EXCEPT !.par = 0, !.pf = Const(0)] }
Pair(v, f) == [v |-> v, f |-> f]
Steps == { <<Pair("x", Const(2))>>, <<Pair("y", Const(5))>>, <<Pair("x", Const(0 - 3)), Pair("y", Const(4))>>,
           <<Pair("x", Form(0, 0, 1))>>, <<Pair("x", Form(1, 0, 2))>>, <<Pair("y", Form(0, 1, 0)), Pair("x", Const(1))>>,
           <<Pair("y", Const(8)), Pair("x", Const(0))>> }
PInit == /\ c = [dom |-> 0, layers |-> <<>>] /\ mc = [ty |-> <<>>, layers |-> <<>>]
         /\ pc \in { [ty |-> t, layers |-> <<>>] : t \in { <<"q">>, <<"q", "q">> } } /\ hist = <<>>
PBuild == /\ hist = <<>> /\ Len(pc.layers) < PMaxLayers
          /\ \E g \in ParamMenu \cup PlainMenu, o \in 0..Len(TyAfter(pc.ty, pc.layers, 1)) :
               LET ty == TyAfter(pc.ty, pc.layers, 1) n == Len(BoxDom(g)) IN
               /\ o + n <= Len(ty) /\ SubSeq(ty, o + 1, o + n) = BoxDom(g)
               /\ pc' = [pc EXCEPT !.layers = Append(pc.layers, [g |-> g, off |-> o])]
          /\ UNCHANGED <<c, mc, hist>>
PSubs == /\ Len(pc.layers) >= 1 /\ Len(hist) < PMaxSteps /\ ~Closed(pc)
         /\ \E st \in Steps : pc' = SubsCirc(pc, st) /\ hist' = Append(hist, st)
         /\ UNCHANGED <<c, mc>>
PSpec == PInit /\ [][PBuild \/ PSubs]_<<c, mc, pc, hist>>
\* substitution never touches anything but the parameters, and reports free symbols correctly
InvSkeleton == [][Skeleton(pc') = Skeleton(pc) \/ hist' = hist]_<<c, mc, pc, hist>>
InvFree == \A st \in Steps : LET q == SubsCirc(pc, st)
                                 subst == { st[k].v : k \in 1..Len(st) }
                                 images == UNION { FS(st[k].f) : k \in 1..Len(st) } IN
             FSCirc(q) \subseteq (FSCirc(pc) \ subst) \cup images
=============================================================================
