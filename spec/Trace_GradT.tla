------------------------------ MODULE Trace_GradT ------------------------------
(***************************************************************************)
(* C15 for tensor diagrams with symbolic boxes and polynomial bubbles.     *)
(* One line: an expression tree t.e over                                   *)
(*   box(ents)      a 2x2 tensor box on one wire of dimension 2 whose four *)
(*                  entries are affine forms  c0/8 + cx x + cy y,          *)
(*                  (dg = 1: the adjoint box, its transpose: real symbols), *)
(*   then(l, r), tensor(l, r), plus(l, r) (a formal sum, at the top only),  *)
(*   bubble(fn, l)  the entrywise image under a polynomial fn (single-wire *)
(*                  bubbles only, as the statement says),                  *)
(* a symbol t.v and a point t.pt (eighths).  TLC computes, exactly, the    *)
(* value of the diagram at the point and its partial derivative (product   *)
(* rule for then and tensor, chain rule entrywise for bubbles), and the    *)
(* derivative with respect to both symbols for the jacobian.               *)
(***************************************************************************)
EXTENDS Param, Json, IOUtils
PhasesQ == {1}
At(f, pt) == DivS2(FromInt(f.c0 + f.cx * pt[1] + f.cy * pt[2]), 6)          \* value of a form at the point
CoefOf(f, v) == FromInt(IF v = "x" THEN f.cx ELSE f.cy)
Box22(es, g(_)) == [dom |-> <<2>>, cod |-> <<2>>, a |-> [k \in 1..4 |-> g(es[k])]]
HadT(A, B) == [A EXCEPT !.a = [k \in 1..Len(A.a) |-> Mul(A.a[k], B.a[k])]]   \* entrywise product
Fn(name, z) == CASE name = "sq" -> Mul(z, z)
                 [] name = "cubeplus" -> Add(Mul(z, Mul(z, z)), z)
                 [] name = "oneminus" -> Add(ROne, Neg(z))
DFn(name, z) == CASE name = "sq" -> Mul(FromInt(2), z)
                  [] name = "cubeplus" -> Add(Mul(FromInt(3), Mul(z, z)), ROne)
                  [] name = "oneminus" -> Neg(ROne)
RECURSIVE EvD(_, _, _)
EvD(n, pt, v) ==
  CASE n.op = "box" -> LET es == IF n.dg = 1 THEN <<n.ents[1], n.ents[3], n.ents[2], n.ents[4]>> ELSE n.ents IN   \* adjoint: transposed (real symbols)
         [val |-> Box22(es, LAMBDA f : At(f, pt)), der |-> Box22(es, LAMBDA f : CoefOf(f, v))]
    [] n.op = "plus" -> LET a == EvD(n.l, pt, v) b == EvD(n.r, pt, v) IN
         [val |-> AddT(a.val, b.val), der |-> AddT(a.der, b.der)]
    [] n.op = "then" -> LET a == EvD(n.l, pt, v) b == EvD(n.r, pt, v) IN
         [val |-> MatThen(a.val, b.val), der |-> AddT(MatThen(a.der, b.val), MatThen(a.val, b.der))]
    [] n.op = "tensor" -> LET a == EvD(n.l, pt, v) b == EvD(n.r, pt, v) IN
         [val |-> Kron(a.val, b.val), der |-> AddT(Kron(a.der, b.val), Kron(a.val, b.der))]
    [] n.op = "bubble" -> LET a == EvD(n.l, pt, v) IN
         [val |-> MapT(a.val, LAMBDA z : Fn(n.fn, z)), der |-> HadT(MapT(a.val, LAMBDA z : DFn(n.fn, z)), a.der)]
RECURSIVE Syms(_)
Syms(n) == CASE n.op = "box" -> UNION { FS(n.ents[k]) : k \in 1..4 }
             [] n.op = "bubble" -> Syms(n.l)
             [] OTHER -> Syms(n.l) \cup Syms(n.r)
OutG(t) == LET rx == EvD(t.e, t.pt, "x") ry == EvD(t.e, t.pt, "y") IN
  [depends |-> t.v \in Syms(t.e), val |-> rx.val.a, dx |-> rx.der.a, dy |-> ry.der.a,
   rows |-> Size(rx.val.dom), cols |-> Size(rx.val.cod), plus |-> t.e.op = "plus"]
Verdicts == LET TR == ndJsonDeserialize(IOEnv.TRACE_FILE) IN [l \in 1..Len(TR) |-> OutG(TR[l])]
ASSUME ndJsonSerialize(IOEnv.OUT, Verdicts)
TVInit == PInit
TVNext == UNCHANGED <<c, mc, pc, hist>>
=============================================================================
