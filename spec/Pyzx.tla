--------------------------------- MODULE Pyzx ---------------------------------
(***************************************************************************)
(* pyzx graphs (C17).  A graph is                                          *)
(*   [vs |-> <<[ty, ph], ...>>,   vertex ids are 0 .. Len(vs) - 1;         *)
(*            ty: 0 boundary, 1 Z, 2 X;  ph: sixteenths of a full turn     *)
(*    es |-> <<[u, v, h], ...>>,  h = 1 for a Hadamard edge                *)
(*    ins, outs |-> sequences of vertex ids,  sc |-> [re, im, s] scalar].  *)
(* GraphSem is the standard (pyzx tensorfy) meaning: sum over one bit per  *)
(* spider; an X spider is a Z spider with a Hadamard on every leg; a plain *)
(* edge forces equal bits, a Hadamard edge contributes (-1)^(ab)/sqrt2.    *)
(* Index order here: inputs then outputs (rows = inputs), as in Gates.tla. *)
(***************************************************************************)
EXTENDS ZX
Spiders(g) == { v \in 0..(Len(g.vs) - 1) : g.vs[v + 1].ty # 0 }
RECURSIVE RankIn(_, _)
RankIn(S, v) == Cardinality({ u \in S : u < v })              \* position of v among the spiders
PosOf(seq, v) == CHOOSE k \in 1..Len(seq) : seq[k] = v
Bit(n, k) == (n \div (2 ^ k)) % 2
BitOf(g, v, asg, ib, ob) ==
  IF g.vs[v + 1].ty # 0 THEN Bit(asg, RankIn(Spiders(g), v))
  ELSE IF \E k \in 1..Len(g.ins) : g.ins[k] = v THEN ib[PosOf(g.ins, v)]
  ELSE ob[PosOf(g.outs, v)]
IsX(g, v) == g.vs[v + 1].ty = 2
EdgeFactor(g, e, asg, ib, ob) ==
  LET a == BitOf(g, e.u, asg, ib, ob) b == BitOf(g, e.v, asg, ib, ob)
      heff == (e.h + (IF IsX(g, e.u) THEN 1 ELSE 0) + (IF IsX(g, e.v) THEN 1 ELSE 0)) % 2 IN
  IF heff = 1 THEN (IF a = 1 /\ b = 1 THEN Neg(InvS2) ELSE InvS2)
  ELSE (IF a = b THEN ROne ELSE RZero)
RECURSIVE ProdEdges(_, _, _, _, _, _)
ProdEdges(g, k, asg, ib, ob, acc) ==
  IF k > Len(g.es) \/ IsZero(acc) THEN acc
  ELSE ProdEdges(g, k + 1, asg, ib, ob, Mul(acc, EdgeFactor(g, g.es[k], asg, ib, ob)))
RECURSIVE ProdPhases(_, _, _, _)
ProdPhases(g, v, asg, acc) ==
  IF v >= Len(g.vs) THEN acc
  ELSE ProdPhases(g, v + 1, asg,
         IF g.vs[v + 1].ty # 0 /\ Bit(asg, RankIn(Spiders(g), v)) = 1 THEN Mul(acc, W(g.vs[v + 1].ph % 16)) ELSE acc)
Amp(g, ib, ob) ==
  LET n == Cardinality(Spiders(g))
      term(asg) == LET p == ProdEdges(g, 1, asg, ib, ob, ROne) IN IF IsZero(p) THEN RZero ELSE Mul(p, ProdPhases(g, 0, asg, ROne)) IN
  SumTo(term, 2 ^ n)
GraphSem1(g) ==      \* without the graph's scalar
  T(Q(Len(g.ins)), Q(Len(g.outs)), LAMBDA r, cc : Amp(g, Digits(r, Q(Len(g.ins))), Digits(cc, Q(Len(g.outs)))))
GraphSem(g) == ScaleT(Gauss(g.sc.re, g.sc.im, g.sc.s), GraphSem1(g))

(***************************************************************************)
(* SimpleWiring: any two spiders are joined by at most one wire and no     *)
(* wire joins a spider to itself (what a simple graph can represent).      *)
(* prod[w] = <<producer, hadamard flag>> for every open wire; producers    *)
(* are numbered like to_pyzx numbers vertices: inputs 0..n-1, then one     *)
(* vertex per spider in diagram order, then the outputs.                   *)
(***************************************************************************)
IsSpiderBox(b) == b.k \in {"Z", "X"}
RECURSIVE ToPyzxFrom(_, _, _, _, _, _, _)
\* state of the scan machine: scan (sequence of <<vertex, hadamard>>), vs, es, scalar, simple?
ToPyzxFrom(d, k, scan, vs, es, sc, simple) ==
  IF k > Len(d.layers) THEN [scan |-> scan, vs |-> vs, es |-> es, sc |-> sc, simple |-> simple]
  ELSE LET b == d.layers[k].b o == d.layers[k].off IN
    IF IsSpiderBox(b) THEN
       LET node == Len(vs)
           srcs == [i \in 1..b.n |-> scan[o + i]]
           newes == [i \in 1..b.n |-> [u |-> srcs[i][1], v |-> node, h |-> srcs[i][2]]]
           ok == \A i, j \in 1..b.n : i # j => srcs[i][1] # srcs[j][1] IN
       ToPyzxFrom(d, k + 1, SubSeq(scan, 1, o) \o [i \in 1..b.m |-> <<node, 0>>] \o SubSeq(scan, o + b.n + 1, Len(scan)),
                  Append(vs, [ty |-> IF b.k = "Z" THEN 1 ELSE 2, ph |-> b.ph]), es \o newes, sc, simple /\ ok)
    ELSE IF b.k = "SWAP" THEN
       ToPyzxFrom(d, k + 1, SubSeq(scan, 1, o) \o <<scan[o + 2], scan[o + 1]>> \o SubSeq(scan, o + 3, Len(scan)), vs, es, sc, simple)
    ELSE IF b.k = "H" THEN
       ToPyzxFrom(d, k + 1, [scan EXCEPT ![o + 1] = <<scan[o + 1][1], 1 - scan[o + 1][2]>>], vs, es, sc, simple)
    ELSE \* scalar
       ToPyzxFrom(d, k + 1, scan, vs, es, Mul(sc, Gauss(b.re, b.im, b.s)), simple)
ToPyzxState(d) ==
  ToPyzxFrom(d, 1, [i \in 1..d.dom |-> <<i - 1, 0>>], [i \in 1..d.dom |-> [ty |-> 0, ph |-> 0]], <<>>, ROne, TRUE)
\* two output wires from the same input boundary vertex, or an input wired to itself, cannot
\* be represented either: every boundary vertex has exactly one neighbour
ToPyzxAlg(d) ==
  LET st == ToPyzxState(d) n == Len(st.vs) w == Len(st.scan) IN
  [vs |-> st.vs \o [i \in 1..w |-> [ty |-> 0, ph |-> 0]],
   es |-> st.es \o [i \in 1..w |-> [u |-> st.scan[i][1], v |-> n + i - 1, h |-> st.scan[i][2]]],
   ins |-> [i \in 1..d.dom |-> i - 1], outs |-> [i \in 1..w |-> n + i - 1], scr |-> st.sc]
SimpleWiring(d) == ToPyzxState(d).simple
GraphSemR(g) == ScaleT(g.scr, GraphSem1(g))      \* graph whose scalar is already a ring element
\* model-level theorem: on simple wirings the scan machine of to_pyzx preserves the meaning
InvToPyzx == SimpleWiring(zd) => GraphSemR(ToPyzxAlg(zd)) = ZXSem(zd)
=============================================================================
