--------------------------------- MODULE Sums ---------------------------------
(***************************************************************************)
(* Formal sums of diagrams (C02): a sum is [dom, cod, terms] with terms a  *)
(* sequence of parallel diagrams.  Sums are ordered (Sum([f, g]) differs   *)
(* from Sum([g, f])); composition and tensor distribute in row-major       *)
(* order, dagger termwise, the empty sum is the unit of +.                 *)
(***************************************************************************)
EXTENDS Diagrams
SumOf(dm, cd, ts) == [dom |-> dm, cod |-> cd, terms |-> ts]
Lift(d) == SumOf(d.dom, d.cod, <<d>>)
WellFormedSum(s) == \A k \in 1..Len(s.terms) : s.terms[k].dom = s.dom /\ s.terms[k].cod = s.cod /\ WellTyped(s.terms[k])
\* all pairs, first index outermost
PairSeq(ta, tb, F(_, _)) ==
  [k \in 1..(Len(ta) * Len(tb)) |->
     LET q == (k - 1) \div Len(tb) IN F(ta[q + 1], tb[(k - 1) - q * Len(tb) + 1])]
SumThen(a, b)   == SumOf(a.dom, b.cod, PairSeq(a.terms, b.terms, Then))
SumTensor(a, b) == SumOf(a.dom \o b.dom, a.cod \o b.cod, PairSeq(a.terms, b.terms, Tensor))
SumDagger(a)    == SumOf(a.cod, a.dom, [k \in 1..Len(a.terms) |-> Dagger(a.terms[k])])
SumAdd(a, b)    == SumOf(a.dom, a.cod, a.terms \o b.terms)
Zero(dm, cd)    == SumOf(dm, cd, <<>>)
\* model-level: bilinearity of the definitions (checked in MC_Monoidal through InvSums)
Bilinear(a, b, c) ==
  /\ (a.cod = c.dom) => SumThen(SumAdd(a, b), c) = SumAdd(SumThen(a, c), SumThen(b, c))
  /\ SumTensor(SumAdd(a, b), c) = SumAdd(SumTensor(a, c), SumTensor(b, c))
  /\ SumDagger(SumAdd(a, b)) = SumAdd(SumDagger(a), SumDagger(b))
  /\ SumAdd(a, Zero(a.dom, a.cod)) = a /\ SumAdd(Zero(a.dom, a.cod), a) = a
  /\ SumDagger(SumDagger(a)) = a
=============================================================================
