--------------------------------- MODULE Types ---------------------------------
(***************************************************************************)
(* The algebra of types (C03 "however they were built", and the adjoint    *)
(* types that C04 and C07 rely on).  A type is a sequence of atoms         *)
(* <<name, z>>; the register holds one type and the public operations of   *)
(* rigid.Ty are transitions on it:                                         *)
(*   tensorR / tensorL with an atom, l, r (reverse and shift the winding), *)
(*   python slicing t[i:j] and reversal t[::-1], powers t ** n, and the    *)
(*   infix t << u = t @ u.l,  t >> u = t.r @ u.                            *)
(* OpRes(t, c) is what a call returns (a type, or the error of an index    *)
(* out of range); count and z are observations.                            *)
(***************************************************************************)
EXTENDS Naturals, Integers, Sequences, FiniteSets
CONSTANTS MaxLen, ZMax
VARIABLES t, last
NoneT == 0 - 1000
Min2(a, b) == IF a < b THEN a ELSE b
Max2(a, b) == IF a > b THEN a ELSE b
Atoms == { <<n, z>> : n \in 1..2, z \in (0 - 1)..1 }
LAdj(u) == [k \in 1..Len(u) |-> <<u[Len(u) + 1 - k][1], u[Len(u) + 1 - k][2] - 1>>]
RAdj(u) == [k \in 1..Len(u) |-> <<u[Len(u) + 1 - k][1], u[Len(u) + 1 - k][2] + 1>>]
RevT(u) == [k \in 1..Len(u) |-> u[Len(u) + 1 - k]]
PyLo(i, n) == IF i = NoneT THEN 0 ELSE IF i < 0 THEN Max2(i + n, 0) ELSE Min2(i, n)
PyHi(j, n) == IF j = NoneT THEN n ELSE IF j < 0 THEN Max2(j + n, 0) ELSE Min2(j, n)
SliceT(u, i, j) == LET lo == PyLo(i, Len(u)) hi == Max2(lo, PyHi(j, Len(u))) IN SubSeq(u, lo + 1, hi)
RECURSIVE PowT(_, _)
PowT(u, n) == IF n = 0 THEN <<>> ELSE PowT(u, n - 1) \o u
Count(u, a) == Cardinality({ k \in 1..Len(u) : u[k] = a })
Call(op, i, j, a) == [op |-> op, i |-> i, j |-> j, a |-> a]
Ok(s) == [e |-> "", s |-> s]
OpRes(u, c) ==
  CASE c.op = "tensorR" -> Ok(u \o <<c.a>>)
    [] c.op = "tensorL" -> Ok(<<c.a>> \o u)
    [] c.op = "l" -> Ok(LAdj(u))
    [] c.op = "r" -> Ok(RAdj(u))
    [] c.op = "slice" -> Ok(SliceT(u, c.i, c.j))
    [] c.op = "rev" -> Ok(RevT(u))
    [] c.op = "pow" -> Ok(PowT(u, c.i))
    [] c.op = "lshift" -> Ok(u \o LAdj(<<c.a>>))
    [] c.op = "rshift" -> Ok(RAdj(u) \o <<c.a>>)
    [] c.op = "index" -> LET k == IF c.i < 0 THEN c.i + Len(u) ELSE c.i IN
                         IF k < 0 \/ k >= Len(u) THEN [e |-> "IndexError", s |-> u] ELSE Ok(<<u[k + 1]>>)
Menu(u) == { Call(op, 0, 0, a) : op \in {"tensorR", "tensorL", "lshift", "rshift"}, a \in Atoms }
      \cup { Call("l", 0, 0, <<1, 0>>), Call("r", 0, 0, <<1, 0>>), Call("rev", 0, 0, <<1, 0>>) }
      \cup { Call("slice", i, j, <<1, 0>>) : i \in {NoneT} \cup ((0 - 1)..Len(u)), j \in {NoneT} \cup ((0 - 1)..Len(u)) }
      \cup { Call("pow", n, 0, <<1, 0>>) : n \in 0..2 }
InBounds(u) == Len(u) <= MaxLen /\ \A k \in 1..Len(u) : u[k][2] >= 0 - ZMax /\ u[k][2] <= ZMax
Init == t = <<>> /\ last = Call("init", 0, 0, <<1, 0>>)
Next == \E c \in Menu(t) : LET r == OpRes(t, c) IN r.e = "" /\ InBounds(r.s) /\ t' = r.s /\ last' = c
Spec == Init /\ [][Next]_<<t, last>>
View == t
\* rigid structure on objects: l and r are mutually inverse anti-homomorphisms
InvAdjoints == /\ RAdj(LAdj(t)) = t /\ LAdj(RAdj(t)) = t
               /\ \A a \in Atoms : LAdj(t \o <<a>>) = LAdj(<<a>>) \o LAdj(t) /\ RAdj(<<a>> \o t) = RAdj(t) \o RAdj(<<a>>)
               /\ Len(LAdj(t)) = Len(t) /\ RevT(RevT(t)) = t
InvSlices == \A k \in 0..Len(t) : SliceT(t, NoneT, k) \o SliceT(t, k, NoneT) = t
=============================================================================
