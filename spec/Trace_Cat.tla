------------------------------- MODULE Trace_Cat -------------------------------
EXTENDS SigCat, Json, IOUtils
VARIABLES d, last
INSTANCE Trace_Diagram WITH Sig <- SigC, Doms <- {<<>>}, MaxBoxes <- 0, MaxWidth <- 0
ASSUME ndJsonSerialize(IOEnv.OUT, Verdicts)
=============================================================================
