------------------------------ MODULE Trace_Grad ------------------------------
(***************************************************************************)
(* C15.  One line: a parametrised circuit t.pc, a symbol t.v, a point      *)
(* t.pt = [x, y] (eighths).  TLC computes the exact partial derivative of  *)
(* the evaluation at the point as  A + pi * B  (pure, when the circuit is  *)
(* all-pure, and mixed) and whether the circuit depends on the symbol.     *)
(***************************************************************************)
EXTENDS Grad, Json, IOUtils
PhasesQ == {1}
NormBox(g) == IF g.par = 1 /\ g.dg = 1 /\ g.k \in {"Rx", "Ry", "Rz", "CU1", "CRz", "CRx"}
              THEN [g EXCEPT !.dg = 0, !.pf = Form(0 - g.pf.c0, 0 - g.pf.cx, 0 - g.pf.cy)] ELSE g
NormCirc(p) == [p EXCEPT !.layers = [k \in 1..Len(p.layers) |-> [p.layers[k] EXCEPT !.g = NormBox(p.layers[k].g)]]]
Out(t) ==
  LET p == NormCirc(t.pc)
      q == GroundCirc(SubsCirc(p, <<Pair("x", Const(t.pt[1])), Pair("y", Const(t.pt[2]))>>))
      pure == AllPure(q) IN
  [depends |-> t.v \in FSCirc(p),
   pure |-> pure,
   pg |-> IF pure THEN PureGrad(p, [ty |-> q.ty, layers |-> AsPure(q).layers], t.v) ELSE [A |-> <<>>, B |-> <<>>],
   mg |-> MixedGrad(p, q, t.v),
   \* both partial derivatives, for the jacobian
   mgx |-> MixedGrad(p, q, "x"), mgy |-> MixedGrad(p, q, "y"),
   pgx |-> IF pure THEN PureGrad(p, [ty |-> q.ty, layers |-> AsPure(q).layers], "x") ELSE [A |-> <<>>, B |-> <<>>],
   ndom |-> Len(q.ty)]
Verdicts == LET TR == ndJsonDeserialize(IOEnv.TRACE_FILE) IN [l \in 1..Len(TR) |-> Out(TR[l])]
ASSUME ndJsonSerialize(IOEnv.OUT, Verdicts)
TVInit == PInit
TVNext == UNCHANGED <<c, mc, pc, hist>>
=============================================================================
