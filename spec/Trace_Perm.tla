----------------------------- MODULE Trace_Perm -----------------------------
(***************************************************************************)
(* Trace validation for C10.  One line = one request made on the real      *)
(* library, in any of the diagram classes that offer swaps:                *)
(*   [kind: "swap" | "perm", lt, rt (types, for swap), perm, dom (type),   *)
(*    exc, res (projected diagram: dom, cod, boxes with kind/dom/cod, offs)]*)
(* The returned boxes are replayed as AdjSwap events on pairs              *)
(* <<label, atom>>; each box must be a swap box whose domain is the pair   *)
(* of atoms actually at its offset and whose codomain is that pair         *)
(* exchanged.                                                              *)
(***************************************************************************)
EXTENDS Perm, Json, IOUtils

Labelled(ty) == [k \in 1..Len(ty) |-> <<k, ty[k]>>]
RECURSIVE RunBoxes(_, _, _, _)
\* [e |-> "" or clause, s |-> arrangement]
RunBoxes(cur, bs, os, k) ==
  IF k > Len(bs) THEN [e |-> "", s |-> cur]
  ELSE LET b == bs[k] o == os[k] IN
       IF b.kind # 1 THEN [e |-> "box-is-not-a-swap", s |-> cur]
       ELSE IF o < 0 \/ o + 2 > Len(cur) THEN [e |-> "swap-offset-out-of-range", s |-> cur]
       ELSE IF b.dom # <<cur[o + 1][2], cur[o + 2][2]>> THEN [e |-> "swap-domain-is-not-the-wires-at-its-offset", s |-> cur]
       ELSE IF b.cod # <<cur[o + 2][2], cur[o + 1][2]>> THEN [e |-> "swap-codomain-not-exchanged", s |-> cur]
       ELSE RunBoxes(AdjSwapOn(cur, o), bs, os, k + 1)
Atoms(cur) == [k \in 1..Len(cur) |-> cur[k][2]]
Labels(cur) == [k \in 1..Len(cur) |-> cur[k][1]]

\* semantic observations (tensor / pure circuit classes): the harness read the wire map q off the evaluated array
\* (q[i] = 0-based output position of input wire i, isperm = 1 iff the array is exactly that permutation tensor);
\* the arrangement it describes must be the requested one
ArrOf(q) == [pos \in 1..Len(q) |-> CHOOSE w \in 1..Len(q) : q[w] = pos - 1]
JSem(t) ==
  IF t.exc # "" THEN "evaluation-of-swap-raised"
  ELSE IF t.isperm # 1 \/ ~IsPerm(t.q) THEN "evaluates-to-something-that-is-no-wire-permutation"
  ELSE IF t.kind = "semswap" THEN
       (IF ArrOf(t.q) = SwapFinal(t.nl, t.nr) THEN "ok" ELSE "evaluated-swap-does-not-move-the-left-block-right")
  ELSE IF PermOK(t.perm, ArrOf(t.q)) THEN "ok" ELSE "evaluated-permutation-does-not-send-wire-i-to-perm-i"

J10(t) ==
  IF t.kind \in {"semswap", "semperm"} THEN JSem(t) ELSE
  IF t.kind = "swap" THEN
     LET dm == t.lt \o t.rt IN
     IF t.exc # "" THEN "valid-swap-refused"
     ELSE IF t.res.dom # dm THEN "domain-is-not-left-then-right"
     ELSE IF Len(t.res.offs) # Len(t.res.boxes) THEN "offsets-length"
     ELSE LET r == RunBoxes(Labelled(dm), t.res.boxes, t.res.offs, 1) IN
          IF r.e # "" THEN r.e
          ELSE IF Labels(r.s) # SwapFinal(Len(t.lt), Len(t.rt)) THEN "wires-not-moved-as-a-block-in-order"
          ELSE IF t.res.cod # Atoms(r.s) THEN "codomain-is-not-the-permuted-domain"
          ELSE "ok"
  ELSE \* "perm": permutation(perm, dom) / permute(*perm)
     IF ~IsPerm(t.perm) \/ Len(t.dom) # Len(t.perm)
     THEN (IF t.exc # "" THEN "ok" ELSE "invalid-request-not-refused")
     ELSE IF t.exc # "" THEN "valid-permutation-refused"
     ELSE IF t.res.dom # t.dom THEN "domain-differs"
     ELSE IF Len(t.res.offs) # Len(t.res.boxes) THEN "offsets-length"
     ELSE LET r == RunBoxes(Labelled(t.dom), t.res.boxes, t.res.offs, 1) IN
          IF r.e # "" THEN r.e
          ELSE IF ~PermOK(t.perm, Labels(r.s)) THEN "wire-i-does-not-end-at-perm-i"
          ELSE IF t.res.cod # Atoms(r.s) THEN "codomain-is-not-the-permuted-domain"
          ELSE "ok"

\* algorithm level: the offsets are the ones the model's machine emits
JDrift(t) ==
  IF t.exc # "" \/ t.kind \in {"semswap", "semperm"} THEN "ok"
  ELSE IF t.kind = "swap" THEN
       (IF t.res.offs = SwapOffs(Len(t.lt), Len(t.rt), 0) THEN "ok" ELSE "drift-offsets")
  ELSE "ok"

Verdicts == LET T == ndJsonDeserialize(IOEnv.TRACE_FILE) IN
  [l \in 1..Len(T) |-> [v |-> <<IF IOEnv.JUDGE = "JDrift" THEN JDrift(T[l]) ELSE J10(T[l])>>]]
ASSUME ndJsonSerialize(IOEnv.OUT, Verdicts)
TVInit == /\ req = [kind |-> "swap", nl |-> 0, nr |-> 0, p |-> <<>>] /\ arr = <<>> /\ pm = <<>>
          /\ i = 0 /\ todo = <<>> /\ log = <<>>
TVNext == UNCHANGED vars
=============================================================================
