------------------------------ MODULE Trace_Types ------------------------------
(***************************************************************************)
(* Trace validation of the type algebra (C03).  One line = one call made   *)
(* on a real rigid.Ty (or monoidal.Ty: no windings, no l / r) built from   *)
(* the model state t.t:  [op, i, j, a], the projected result res, exc, and *)
(* the flags of the comparison of the result with the type the constructor *)
(* builds from the same atoms: eq, hasheq, rt (repr evaluates back), and   *)
(* the observations cnt (count of atom a in t.t) and zz (winding of a      *)
(* one-atom type, -99 when refused).                                       *)
(***************************************************************************)
EXTENDS Types, Json, IOUtils
JT(c) ==
  LET exp == OpRes(c.t, [op |-> c.op, i |-> c.i, j |-> c.j, a |-> c.a]) IN
  IF exp.e # "" THEN (IF c.exc = exp.e THEN "ok" ELSE "index-out-of-range-not-refused")
  ELSE IF c.exc # "" THEN "operation-on-types-raised"
  ELSE IF c.res # exp.s THEN "type-differs-from-its-definition"
  ELSE IF c.eq # 1 THEN "same-atoms-built-differently-compare-unequal"
  ELSE IF c.hasheq # 1 THEN "equal-types-hash-differently"
  ELSE IF c.rt # 1 THEN "repr-does-not-evaluate-back-to-an-equal-value"
  ELSE IF c.cnt # Count(c.t, c.a) THEN "count-differs"
  ELSE IF Len(c.t) = 1 /\ c.zz # c.t[1][2] THEN "winding-number-differs"
  ELSE IF Len(c.t) # 1 /\ c.zz # 0 - 99 THEN "winding-number-of-a-composite-type-not-refused"
  ELSE "ok"
Verdicts == LET TR == ndJsonDeserialize(IOEnv.TRACE_FILE) IN [l \in 1..Len(TR) |-> [v |-> <<JT(TR[l])>>]]
ASSUME ndJsonSerialize(IOEnv.OUT, Verdicts)
TVInit == Init
TVNext == UNCHANGED <<t, last>>
=============================================================================
