----------------------------- MODULE Trace_Gates -----------------------------
(***************************************************************************)
(* C11: for every recorded pure circuit TLC evaluates, exactly, the tensor *)
(* the circuit must denote (Gates!Sem), the tensor its dagger must denote  *)
(* (the conjugate transpose) and writes both out; the harness compares the *)
(* float arrays returned by the real library with the float images of      *)
(* these exact values under a fixed tolerance (the only step outside TLC). *)
(* One line: [c |-> circuit, ...]; output: [dom, cod, e, de] with e, de    *)
(* sequences of ring elements.                                             *)
(***************************************************************************)
EXTENDS Gates, Json, IOUtils
PhasesQ == {1}
Expect(t) ==
  IF t.kind = "rewire" THEN
     LET M == RewireT(Sem(t.c), t.a, t.b, t.n) IN [ni |-> t.n, no |-> t.n, e |-> M.a, de |-> ConjT(M).a]
  ELSE LET M == Sem(t.c) IN [ni |-> Len(M.dom), no |-> Len(M.cod), e |-> M.a, de |-> ConjT(M).a]
Verdicts == LET TR == ndJsonDeserialize(IOEnv.TRACE_FILE) IN [l \in 1..Len(TR) |-> Expect(TR[l])]
ASSUME ndJsonSerialize(IOEnv.OUT, Verdicts)
TVInit == c = [dom |-> 0, layers |-> <<>>]
TVNext == UNCHANGED c
=============================================================================
