----------------------------- MODULE Trace_Functor -----------------------------
(***************************************************************************)
(* Trace validation for C04.  One line = a functor configuration t.cfg     *)
(* (built on the real library as rigid.Functor from dicts or callables), a *)
(* rigid diagram t.d, the projected image t.img = F(d), its exception, and *)
(* laws: a record of 0/1 flags, each the value of python == between the    *)
(* two sides of a functoriality equation computed by the real library.     *)
(***************************************************************************)
EXTENDS Functor, Json, IOUtils
AsD(o) == Diag(o.dom, o.cod, o.boxes, o.offs)
LawNames == <<"then", "tensor", "id", "slices", "sum", "adjoint_l", "adjoint_r", "cup", "cap", "swap",
              "dom_cod", "dagger">>
J04(t) ==
  LET FF == FOf(t.cfg) img == AsD(t.img)
      failing == { k \in 1..Len(LawNames) : t.laws[LawNames[k]] = 0 } IN
  IF t.exc # "" THEN "functor-raised"
  ELSE IF img.dom # ApplyTy(FF, t.d.dom) \/ img.cod # ApplyTy(FF, t.d.cod) THEN "image-type-is-not-the-image-of-the-type"
  ELSE IF ~WellTyped(img) THEN "image-ill-typed"
  ELSE IF ~HasSwap(t.d) /\ img # Apply(FF, t.d) THEN "image-is-not-the-composite-of-the-images-of-the-layers"
  ELSE IF failing # {} THEN "law-" \o LawNames[CHOOSE k \in failing : \A j \in failing : k <= j]
  ELSE "ok"
JDrift(t) == IF t.exc = "" /\ AsD(t.img) # Apply(FOf(t.cfg), t.d) THEN "drift-swap-decomposition" ELSE "ok"
Verdicts == LET TR == ndJsonDeserialize(IOEnv.TRACE_FILE) IN
  [l \in 1..Len(TR) |-> [v |-> <<IF IOEnv.JUDGE = "JDrift" THEN JDrift(TR[l]) ELSE J04(TR[l])>>]]
ASSUME ndJsonSerialize(IOEnv.OUT, Verdicts)
TVInit == cfg = [ox |-> 1, oy |-> 1, mode |-> 1] /\ d = IdD(<<>>)
TVNext == UNCHANGED vars
=============================================================================
