----------------------------- MODULE Trace_Rigid -----------------------------
EXTENDS SigRigid, Json, IOUtils
VARIABLES d, last
INSTANCE Trace_Diagram WITH Sig <- SigR, Doms <- {<<>>}, MaxBoxes <- 0, MaxWidth <- 0
ASSUME ndJsonSerialize(IOEnv.OUT, Verdicts)
=============================================================================
