------------------------------- MODULE GaussMat -------------------------------
(* Mat instantiated at the Gaussian integers <<re, im>>. *)
EXTENDS Naturals, Integers, Sequences, FiniteSets, TLC
GAdd(p, q) == <<p[1] + q[1], p[2] + q[2]>>
GMul(p, q) == <<p[1] * q[1] - p[2] * q[2], p[1] * q[2] + p[2] * q[1]>>
GConj(p) == <<p[1], 0 - p[2]>>
INSTANCE Mat WITH RAdd <- GAdd, RMul <- GMul, RConj <- GConj, RZero <- <<0, 0>>, ROne <- <<1, 0>>
=============================================================================
