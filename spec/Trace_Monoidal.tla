---------------------------- MODULE Trace_Monoidal ----------------------------
(* Trace_Diagram bound to the signature of MC_Monoidal. *)
EXTENDS SigMonoidal, Json, IOUtils
VARIABLES d, last
INSTANCE Trace_Diagram WITH Sig <- SigM, Doms <- {<<>>}, MaxBoxes <- 0, MaxWidth <- 0
ASSUME ndJsonSerialize(IOEnv.OUT, Verdicts)
=============================================================================
