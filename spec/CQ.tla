---------------------------------- MODULE CQ ----------------------------------
(***************************************************************************)
(* Classical-quantum maps (C12).  Wires are "q" (qubit) or "b" (bit).  A   *)
(* CQ map from a type with dc bits and dq qubits to one with cc bits and   *)
(* cq qubits is [dc, dq, cc, cq, m]: m is a tensor (Mat.tla, exact ring)   *)
(* with domain axes  bits ++ qubits ++ qubits'  and codomain axes likewise *)
(* (every quantum wire appears twice: the conjugate copy first).  This is  *)
(* the layout of discopy.quantum.cqmap; the definitions below are the      *)
(* mathematical ones: doubling of pure maps, delta tensors for measuring   *)
(* and encoding, traces for discarding, sector-wise tensor product.        *)
(***************************************************************************)
EXTENDS Gates
CQM(dc, dq, cc, cq, m) == [dc |-> dc, dq |-> dq, cc |-> cc, cq |-> cq, m |-> m]
NB(ty) == Cardinality({ k \in 1..Len(ty) : ty[k] = "b" })
NQ(ty) == Cardinality({ k \in 1..Len(ty) : ty[k] = "q" })
Pow2(n) == 2 ^ n
\* reorder tensor axes (all of dimension 2): new axis i is old axis p[i]
RECURSIVE Undig(_, _)
Undig(bits, k) == IF k > Len(bits) THEN 0 ELSE bits[k] * Pow2(Len(bits) - k) + Undig(bits, k + 1)
PosIn(p, j) == CHOOSE i \in 1..Len(p) : p[i] = j
OldIndex(newidx, p) == LET nd == Digits(newidx, Q(Len(p))) IN Undig([j \in 1..Len(p) |-> nd[PosIn(p, j)]], 1)
PermAxes(M, pd, pc) ==
  LET cols == Pow2(Len(pc)) IN
  T(Q(Len(pd)), Q(Len(pc)), LAMBDA r, cc : M.a[OldIndex(r, pd) * cols + OldIndex(cc, pc) + 1])
Rng(a, n) == [k \in 1..n |-> a + k]                  \* a+1 .. a+n
\* sector-wise tensor product: (cA cB)(qA qB)(q'A q'B)
SectorPerm(ca, qa, cb, qb) ==
  Rng(0, ca) \o Rng(ca + 2 * qa, cb) \o Rng(ca, qa) \o Rng(ca + 2 * qa + cb, qb)
  \o Rng(ca + qa, qa) \o Rng(ca + 2 * qa + cb + qb, qb)
CQKron(A, B) ==
  CQM(A.dc + B.dc, A.dq + B.dq, A.cc + B.cc, A.cq + B.cq,
      PermAxes(Kron(A.m, B.m), SectorPerm(A.dc, A.dq, B.dc, B.dq), SectorPerm(A.cc, A.cq, B.cc, B.cq)))
CQThen(A, B) == CQM(A.dc, A.dq, B.cc, B.cq, MatThen(A.m, B.m))
CQDag(A) == CQM(A.cc, A.cq, A.dc, A.dq, ConjT(A.m))
CQId(ty) == CQM(NB(ty), NQ(ty), NB(ty), NQ(ty), IdT(Q(NB(ty) + 2 * NQ(ty))))
\* doubling of a pure map U : n qubits -> m qubits (tensor [in, out])
ConjE(U) == MapT(U, Conj)
CQPure(U) == CQM(0, Len(U.dom), 0, Len(U.cod), Kron(ConjE(U), U))
CQClassical(U) == CQM(Len(U.dom), 0, Len(U.cod), 0, U)
Delta(dm, cd) == T(Q(dm), Q(cd), LAMBDA r, cc :
                     IF (r = 0 \/ dm = 0) /\ (cc = 0 \/ cd = 0) THEN ROne
                     ELSE IF (r = Pow2(dm) - 1 \/ dm = 0) /\ (cc = Pow2(cd) - 1 \/ cd = 0) THEN ROne ELSE RZero)
Measure1(destructive) == IF destructive THEN CQM(0, 1, 1, 0, Delta(2, 1)) ELSE CQM(0, 1, 1, 1, Delta(2, 3))
DiscardQ == CQM(0, 1, 0, 0, Delta(2, 0))
DiscardB == CQM(1, 0, 0, 0, T(<<2>>, <<>>, LAMBDA r, cc : ROne))
RECURSIVE CQPow(_, _)
CQPow(A, n) == IF n = 0 THEN CQId(<<>>) ELSE CQKron(A, CQPow(A, n - 1))
RECURSIVE DiscardTy(_)
DiscardTy(ty) == IF ty = <<>> THEN CQId(<<>>) ELSE CQKron(IF ty[1] = "q" THEN DiscardQ ELSE DiscardB, DiscardTy(Tail(ty)))
\* Measure(n, destructive, override_bits): qubits [++ bits to override] -> [qubits ++] bits
MeasureN(n, destructive, override) ==
  LET mm == CQPow(Measure1(destructive), n) IN IF override THEN CQKron(mm, CQPow(DiscardB, n)) ELSE mm
BitsT(bits) == T(<<>>, Q(Len(bits)), LAMBDA r, cc : IF Digits(cc, Q(Len(bits))) = bits THEN ROne ELSE RZero)
NotT == T(<<2>>, <<2>>, LAMBDA r, cc : IF r # cc THEN ROne ELSE RZero)
\* a genuinely stochastic classical gate (rows = input bit):  0 -> (1/4, 3/4),  1 -> (1/2, 1/2)
NoisyT == T(<<2>>, <<2>>, LAMBDA r, cc : IF r = 0 THEN (IF cc = 0 THEN DivS2(ROne, 4) ELSE DivS2(FromInt(3), 4)) ELSE DivS2(ROne, 2))
CopyT == Delta(1, 2)
MatchT == Delta(2, 1)
CQSwap(l, r) ==
  LET s(a, b) == SwapT(Q(a), Q(b)) IN
  CQM(NB(l) + NB(r), NQ(l) + NQ(r), NB(l) + NB(r), NQ(l) + NQ(r),
      Kron(Kron(s(NB(l), NB(r)), s(NQ(l), NQ(r))), s(NQ(l), NQ(r))))

(***************************************************************************)
(* A mixed-circuit box: the gate record of Gates.tla extended with         *)
(* n (count), f1, f2 (flags), tl, tr (types).  Its domain / codomain types *)
(* and its CQ map.                                                         *)
(***************************************************************************)
PureKinds == {"H", "X", "Y", "Z", "S", "T", "CX", "CZ", "SWAP", "Rx", "Ry", "Rz", "CU1", "CRz", "CRx", "Ctrl", "Ket", "Bra"}
AmplitudeKinds == PureKinds \cup {"scalar"}
Rep(x, n) == [k \in 1..n |-> x]
BoxDom(g) ==
  CASE g.k \in PureKinds -> Rep("q", Len(GateT(g).dom))
    [] g.k = "Measure" -> Rep("q", g.n) \o (IF g.f2 = 1 THEN Rep("b", g.n) ELSE <<>>)
    [] g.k = "Encode" -> (IF g.f1 = 1 THEN <<>> ELSE Rep("q", g.n)) \o Rep("b", g.n)
    [] g.k = "Discard" -> g.tl
    [] g.k = "MixedState" -> <<>>
    [] g.k = "Bits" -> <<>>
    [] g.k \in {"NOT", "Noisy"} -> <<"b">>
    [] g.k = "Copy" -> <<"b">>
    [] g.k = "Match" -> <<"b", "b">>
    [] g.k = "MSwap" -> g.tl \o g.tr
    [] g.k \in {"scalar", "mscalar"} -> <<>>
BoxCod(g) ==
  CASE g.k \in PureKinds -> Rep("q", Len(GateT(g).cod))
    [] g.k = "Measure" -> (IF g.f1 = 1 THEN <<>> ELSE Rep("q", g.n)) \o Rep("b", g.n)
    [] g.k = "Encode" -> Rep("q", g.n) \o (IF g.f2 = 1 THEN Rep("b", g.n) ELSE <<>>)
    [] g.k = "Discard" -> <<>>
    [] g.k = "MixedState" -> g.tl
    [] g.k = "Bits" -> Rep("b", Len(g.bits))
    [] g.k \in {"NOT", "Noisy"} -> <<"b">>
    [] g.k = "Copy" -> <<"b", "b">>
    [] g.k = "Match" -> <<"b">>
    [] g.k = "MSwap" -> g.tr \o g.tl
    [] g.k \in {"scalar", "mscalar"} -> <<>>
\* Measure(n, destructive = f1, override_bits = f2): the code's wire order is qubits then bits on both sides
BoxCQ(g) ==
  CASE g.k \in PureKinds -> CQPure(GateT(g))
    [] g.k = "Measure" -> MeasureN(g.n, g.f1 = 1, g.f2 = 1)
    [] g.k = "Encode" -> CQDag(MeasureN(g.n, g.f1 = 1, g.f2 = 1))
    [] g.k = "Discard" -> DiscardTy(g.tl)
    [] g.k = "MixedState" -> CQDag(DiscardTy(g.tl))
    [] g.k = "Bits" -> CQClassical(BitsT(g.bits))
    [] g.k = "NOT" -> CQClassical(NotT)
    [] g.k = "Noisy" -> CQClassical(NoisyT)
    [] g.k = "Copy" -> CQClassical(CopyT)
    [] g.k = "Match" -> CQClassical(MatchT)
    [] g.k = "MSwap" -> CQSwap(g.tl, g.tr)
    [] g.k = "scalar" -> CQM(0, 0, 0, 0, [dom |-> <<>>, cod |-> <<>>, a |-> <<Abs2(Gauss(g.re, g.im, g.s))>>])
    [] g.k = "mscalar" -> CQM(0, 0, 0, 0, [dom |-> <<>>, cod |-> <<>>, a |-> <<Gauss(g.re, g.im, g.s)>>])
\* NOTE on Measure with destructive = FALSE: codomain wires are bits then qubits in the CQ layout but the
\* circuit type lists qubits first; both are handled by the grouped layout (classical sector first).
Whisk(tl, A, tr) == CQKron(CQKron(CQId(tl), A), CQId(tr))
RECURSIVE CQFrom(_, _, _, _)
CQFrom(M, ty, layers, k) ==
  IF k > Len(layers) THEN [m |-> M, ty |-> ty]
  ELSE LET g == layers[k].g o == layers[k].off n == Len(BoxDom(g)) IN
       CQFrom(CQThen(M, Whisk(SubSeq(ty, 1, o), BoxCQ(g), SubSeq(ty, o + n + 1, Len(ty)))),
              SubSeq(ty, 1, o) \o BoxCod(g) \o SubSeq(ty, o + n + 1, Len(ty)), layers, k + 1)
CQSem(mc) == CQFrom(CQId(mc.ty), mc.ty, mc.layers, 1).m
RECURSIVE TyAfter(_, _, _)
TyAfter(ty, layers, k) ==
  IF k > Len(layers) THEN ty
  ELSE LET g == layers[k].g o == layers[k].off n == Len(BoxDom(g)) IN
       TyAfter(SubSeq(ty, 1, o) \o BoxCod(g) \o SubSeq(ty, o + n + 1, Len(ty)), layers, k + 1)
CodTy(mc) == TyAfter(mc.ty, mc.layers, 1)
\* init_and_discard: inputs initialised to 0, output qubits discarded: a distribution over the output bits
Weight(ty) == NB(ty) + 2 * NQ(ty)
RECURSIVE InitAll(_)
InitAll(ty) == IF ty = <<>> THEN CQId(<<>>)
               ELSE CQKron(IF ty[1] = "q" THEN CQPure(BitsT(<<0>>)) ELSE CQClassical(BitsT(<<0>>)), InitAll(Tail(ty)))
RECURSIVE DiscardQubits(_)
DiscardQubits(ty) == IF ty = <<>> THEN CQId(<<>>)
                     ELSE CQKron(IF ty[1] = "q" THEN DiscardQ ELSE CQId(<<"b">>), DiscardQubits(Tail(ty)))
Counts(mc) == CQThen(CQThen(InitAll(mc.ty), CQSem(mc)), DiscardQubits(TyAfter(mc.ty, mc.layers, 1))).m

(***************************************************************************)
(* Exhaustive model: mixed circuits over a menu of boxes, bounded by the   *)
(* weight (#bits + 2 #qubits) of every intermediate type.                  *)
(***************************************************************************)
CONSTANTS MaxWeight, MaxMLayers
VARIABLE mc
MG(k, n, f1, f2, tl, tr) ==
  [k |-> k, ph |-> 0, bits |-> <<>>, dg |-> 0, sub |-> "", subdg |-> 0, re |-> 0, im |-> 0, s |-> 0,
   n |-> n, f1 |-> f1, f2 |-> f2, tl |-> tl, tr |-> tr, par |-> 0, pf |-> [c0 |-> 0, cx |-> 0, cy |-> 0]]
PG(k, ph, dg) == [MG(k, 0, 0, 0, <<>>, <<>>) EXCEPT !.ph = ph, !.dg = dg]
PKB(k, bits) == [MG(k, 0, 0, 0, <<>>, <<>>) EXCEPT !.bits = bits]
MSC(k, re, im, s) == [MG(k, 0, 0, 0, <<>>, <<>>) EXCEPT !.re = re, !.im = im, !.s = s]
MPure == { PG(k, 0, 0) : k \in {"H", "X", "Y", "S", "CX"} } \cup { PG("Rz", 1, 0), PG("S", 0, 1), PG("Ry", 3, 0) }
         \cup { PKB("Ket", <<0>>), PKB("Ket", <<1>>), PKB("Bra", <<0>>), PKB("Bra", <<1>>) }
MMixed == { MG("Measure", 1, d, o, <<>>, <<>>) : d \in 0..1, o \in 0..1 } \cup { MG("Measure", 2, 1, 0, <<>>, <<>>) }
          \cup { MG("Encode", 1, d, o, <<>>, <<>>) : d \in 0..1, o \in 0..1 }
          \cup { MG("Discard", 0, 0, 0, t, <<>>) : t \in { <<"q">>, <<"b">>, <<"q", "b">>, <<"q", "q">>, <<"b", "q">> } }
          \cup { MG("MixedState", 0, 0, 0, t, <<>>) : t \in { <<"q">>, <<"b">>, <<"q", "q">> } }
          \cup { PKB("Bits", <<0>>), PKB("Bits", <<1>>), PKB("Bits", <<1, 0>>) }
          \cup { MG("NOT", 0, 0, 0, <<>>, <<>>), MG("Copy", 0, 0, 0, <<>>, <<>>), MG("Match", 0, 0, 0, <<>>, <<>>),
                 MG("Noisy", 0, 0, 0, <<>>, <<>>) }
          \cup { MG("MSwap", 0, 0, 0, <<a>>, <<b>>) : a \in {"q", "b"}, b \in {"q", "b"} }
          \cup { MSC("scalar", 1, 1, 2), MSC("mscalar", 1, 0, 2) }
          \* the same amplitude scalars written as square roots (gates.Sqrt): sub = "sqrt" tells the adapter to build
          \* Sqrt(amplitude^2); i = sqrt(-1) and 1 + i = sqrt(2i) have negative / imaginary radicands
          \cup { [MSC("scalar", 0, 1, 0) EXCEPT !.sub = "sqrt"], [MSC("scalar", 1, 1, 0) EXCEPT !.sub = "sqrt"] }
MMenu == MPure \cup MMixed
MTypes == { <<>>, <<"q">>, <<"b">>, <<"q", "b">>, <<"b", "q">>, <<"q", "q">>, <<"b", "b">> }
MInit == c = [dom |-> 0, layers |-> <<>>] /\ mc \in { [ty |-> t, layers |-> <<>>] : t \in { t \in MTypes : Weight(t) <= MaxWeight } }
MBuild == /\ Len(mc.layers) < MaxMLayers
          /\ \E g \in MMenu, o \in 0..Len(CodTy(mc)) :
               LET ty == CodTy(mc) n == Len(BoxDom(g)) IN
               /\ o + n <= Len(ty) /\ SubSeq(ty, o + 1, o + n) = BoxDom(g)
               /\ Weight(SubSeq(ty, 1, o) \o BoxCod(g) \o SubSeq(ty, o + n + 1, Len(ty))) <= MaxWeight
               /\ mc' = [mc EXCEPT !.layers = Append(mc.layers, [g |-> g, off |-> o])]
          /\ UNCHANGED c
MSpec == MInit /\ [][MBuild]_<<c, mc>>
QSwap(g) == g.k = "MSwap" /\ g.tl = <<"q">> /\ g.tr = <<"q">>
AllPure(x) == (\A k \in 1..Len(x.layers) : x.layers[k].g.k \in AmplitudeKinds \/ QSwap(x.layers[k].g))
              /\ (\A k \in 1..Len(x.ty) : x.ty[k] = "q")
\* circuits of classical boxes on bits only: their CQ map is their classical tensor
ClassicalKinds == {"Bits", "NOT", "Noisy", "Copy", "Match"}
AllClassical(x) == /\ \A k \in 1..Len(x.ty) : x.ty[k] = "b"
                   /\ \A k \in 1..Len(x.layers) : x.layers[k].g.k \in ClassicalKinds
                        \/ (x.layers[k].g.k = "MSwap" /\ x.layers[k].g.tl = <<"b">> /\ x.layers[k].g.tr = <<"b">>)
\* measuring every output qubit of a pure circuit (the Born rule of its amplitudes)
MeasureAll(x) == LET n == Len(CodTy(x)) IN
  IF n = 0 THEN x ELSE [x EXCEPT !.layers = Append(x.layers, [g |-> MG("Measure", n, 1, 0, <<>>, <<>>), off |-> 0])]
AsPure(x) == [dom |-> Len(x.ty),
              layers |-> [k \in 1..Len(x.layers) |->
                 IF QSwap(x.layers[k].g) THEN [x.layers[k] EXCEPT !.g.k = "SWAP"] ELSE x.layers[k]]]
\* no qubit wire anywhere in the circuit
RECURSIVE NoQubitFrom(_, _, _)
NoQubitFrom(ty, layers, k) ==
  NQ(ty) = 0 /\ (k > Len(layers) \/ NoQubitFrom(TyAfter(ty, <<layers[k]>>, 1), layers, k + 1))
NoQubits(x) == NoQubitFrom(x.ty, x.layers, 1)
\* "the circuit is mixed": some type along the circuit has both bits and qubits, or some box is a
\* genuinely mixed one (the library must then evaluate it as a CQ map)
MixedKinds == {"Measure", "Encode", "Discard", "MixedState", "mscalar"}
RECURSIVE BothFrom(_, _, _)
BothFrom(ty, layers, k) ==
  (NB(ty) > 0 /\ NQ(ty) > 0) \/ (k <= Len(layers) /\ BothFrom(TyAfter(ty, <<layers[k]>>, 1), layers, k + 1))
SpecIsMixed(x) == BothFrom(x.ty, x.layers, 1) \/ \E k \in 1..Len(x.layers) : x.layers[k].g.k \in MixedKinds
HasAmplitudeOnly(x) == \E k \in 1..Len(x.layers) : x.layers[k].g.k \in {"scalar", "Bra"}
\* evaluating a pure circuit as a CQ map gives the doubled map of its pure evaluation
InvDoubling == AllPure(mc) => CQSem(mc).m = CQPure(Sem(AsPure(mc))).m
\* preparations, unitaries, measurements, discards and stochastic classical gates are trace-preserving
TPKinds == {"H", "X", "Y", "S", "CX", "Rz", "Ry", "Ket", "Measure", "Discard", "Bits", "NOT", "Noisy", "Copy", "MSwap"}
IsTP(x) == \A k \in 1..Len(x.layers) : x.layers[k].g.k \in TPKinds
InvTracePreserving == IsTP(mc) => CQThen(CQSem(mc), DiscardTy(CodTy(mc))).m = DiscardTy(mc.ty).m
\* ... hence the counts read off the evaluation form a probability distribution
SumAll(M) == LET f(k) == M.a[k + 1] IN SumTo(f, Len(M.a))
InvCounts == IsTP(mc) => SumAll(Counts(mc)) = ROne
\* encoding and mixed states are the adjoints of measuring and discarding
InvAdjoints == /\ \A d \in 0..1, o \in 0..1 : BoxCQ(MG("Encode", 1, d, o, <<>>, <<>>)).m = ConjT(BoxCQ(MG("Measure", 1, d, o, <<>>, <<>>)).m)
               /\ \A t \in { <<"q">>, <<"b">> } : BoxCQ(MG("MixedState", 0, 0, 0, t, <<>>)).m = ConjT(BoxCQ(MG("Discard", 0, 0, 0, t, <<>>)).m)
=============================================================================
