------------------------------ MODULE Trace_Hook ------------------------------
(***************************************************************************)
(* C01 on everything the library constructs: each ndjson line is the       *)
(* projection of one diagram observed by the hook in                       *)
(* monoidal.Diagram.__init__ (DISCOPY_VERIF=1), including the layer view   *)
(* the library stored for it.  Verdict per line: the first failing clause  *)
(* of Diagrams!FirstFailing, "ok" if the diagram is well-typed and its     *)
(* layer view agrees with its boxes and offsets.                           *)
(***************************************************************************)
EXTENDS Diagrams, Json, IOUtils
Verdicts == LET T == ndJsonDeserialize(IOEnv.TRACE_FILE) IN
  [l \in 1..Len(T) |-> [v |-> <<FirstFailing(T[l])>>]]
ASSUME ndJsonSerialize(IOEnv.OUT, Verdicts)
VARIABLE z
TVInit == z = 0
TVNext == UNCHANGED z
=============================================================================
