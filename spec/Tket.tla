---------------------------------- MODULE Tket ----------------------------------
(***************************************************************************)
(* tket circuits (C13).  A tket circuit is                                 *)
(*   [nq, nb, cmds |-> <<[op, ph, qs, bs], ...>>, postsel |-> <<[b, v]>>,  *)
(*    sc |-> [re, im, s], post |-> mixed circuit on bits (CQ.tla)]         *)
(* op in {"H","X","Y","Z","S","T","Sdg","Tdg","CX","CZ","CS","CSdg","CY",  *)
(* "CH","SWAP","Rx","Rz","CRz","Measure"}; ph: the rotation angle in eighths of a full turn (tket's    *)
(* half-turn parameter times 4); qs, bs: qubit / bit register indices.     *)
(* TkSem: exact evolution from |0..0> and bits 0..0.  Mid-circuit           *)
(* measurements split a branch [bits, vec] into two (pure unnormalised     *)
(* vectors), so the result is a distribution over the bit register.        *)
(* Post: post-selection, dropping the selected bits, scaling, classical    *)
(* post-processing.                                                        *)
(***************************************************************************)
EXTENDS CQ
TG(op, ph) == [k |-> op, ph |-> ph, bits |-> <<>>, dg |-> 0, sub |-> "", subdg |-> 0, re |-> 0, im |-> 0, s |-> 0]
\* tket's adjoint gates Sdg, Tdg: the named gate with the dagger flag
TkGate(op, ph) == IF op = "Sdg" THEN [TG("S", ph) EXCEPT !.dg = 1]
                  ELSE IF op = "Tdg" THEN [TG("T", ph) EXCEPT !.dg = 1]
                  ELSE IF op \in {"CS", "CY", "CH"} THEN [TG("Ctrl", ph) EXCEPT !.sub = IF op = "CS" THEN "S" ELSE IF op = "CY" THEN "Y" ELSE "H"]
                  ELSE IF op = "CSdg" THEN [TG("Ctrl", ph) EXCEPT !.sub = "S", !.subdg = 1] ELSE TG(op, ph)
Vec0(nq) == T(<<>>, Q(nq), LAMBDA r, cc : IF cc = 0 THEN ROne ELSE RZero)
Apply1(v, nq, GG, q) == MatThen(v, Whisker(Q(q), GG, Q(nq - q - 1)))
Apply2(v, nq, GG, a, b) == MatThen(v, RewireT(GG, a, b, nq))
\* projector of qubit q onto the value x
Proj(v, nq, q, x) == [v EXCEPT !.a = [k \in 1..Len(v.a) |-> IF Digits(k - 1, Q(nq))[q + 1] = x THEN v.a[k] ELSE RZero]]
Norm2(v) == LET f(k) == Abs2(v.a[k + 1]) IN SumTo(f, Len(v.a))
StepCmd(brs, nq, cmd) ==
  IF cmd.op = "Measure" THEN
     LET q == cmd.qs[1] b == cmd.bs[1]
         split(br) == << [bits |-> [br.bits EXCEPT ![b + 1] = 0], vec |-> Proj(br.vec, nq, q, 0)],
                         [bits |-> [br.bits EXCEPT ![b + 1] = 1], vec |-> Proj(br.vec, nq, q, 1)] >> IN
     [k \in 1..(2 * Len(brs)) |-> split(brs[(k + 1) \div 2])[2 - (k % 2)]]
  ELSE LET GG == GateT(TkGate(cmd.op, cmd.ph)) IN
     [k \in 1..Len(brs) |-> [brs[k] EXCEPT !.vec = IF Len(cmd.qs) = 1 THEN Apply1(brs[k].vec, nq, GG, cmd.qs[1])
                                                         ELSE Apply2(brs[k].vec, nq, GG, cmd.qs[1], cmd.qs[2])]]
RECURSIVE RunCmds(_, _, _, _)
RunCmds(brs, nq, cmds, k) == IF k > Len(cmds) THEN brs ELSE RunCmds(TLCEval(StepCmd(brs, nq, cmds[k])), nq, cmds, k + 1)
\* distribution over the bit register: index = bits read with bit 0 most significant
TkDist(tk) ==
  LET brs == RunCmds(<<[bits |-> [i \in 1..tk.nb |-> 0], vec |-> Vec0(tk.nq)]>>, tk.nq, tk.cmds, 1) IN
  [x \in 1..Pow2(tk.nb) |->
     LET f(k) == IF Undig(brs[k + 1].bits, 1) = x - 1 THEN Norm2(brs[k + 1].vec) ELSE RZero IN SumTo(f, Len(brs))]
\* post-selection: keep register values matching every [b, v], drop those bits
Selected(tk) == { tk.postsel[k].b : k \in 1..Len(tk.postsel) }
KeptBits(tk) == SelectSeq([i \in 1..tk.nb |-> i - 1], LAMBDA b : b \notin Selected(tk))
Matches(tk, bits) == \A k \in 1..Len(tk.postsel) : bits[tk.postsel[k].b + 1] = tk.postsel[k].v
PostSelected(tk) ==
  LET dist == TkDist(tk) kept == KeptBits(tk) n == Len(kept) IN
  [y \in 1..Pow2(n) |->
     LET yb == Digits(y - 1, Q(n))
         f(x) == LET xb == Digits(x, Q(tk.nb)) IN
                 IF Matches(tk, xb) /\ (\A j \in 1..n : xb[kept[j] + 1] = yb[j]) THEN dist[x + 1] ELSE RZero IN
     SumTo(f, Pow2(tk.nb))]
\* scaling and classical post-processing (a mixed circuit on bits: its CQ map is its stochastic matrix)
Post(tk) ==
  LET v == PostSelected(tk) n == Len(KeptBits(tk))
      row == [dom |-> <<>>, cod |-> Q(n), a |-> [k \in 1..Len(v) |-> Mul(Gauss(tk.sc.re, tk.sc.im, tk.sc.s), v[k])]] IN
  MatThen(row, CQSem(tk.post).m).a

(***************************************************************************)
(* Generator: circuits over the exportable gate set.                       *)
(***************************************************************************)
TkMenu == { PG(k, 0, 0) : k \in {"H", "X", "Y", "S", "T", "CX", "CZ"} } \cup { PG("Rz", 1, 0), PG("Rx", 3, 0), PG("CRz", 1, 0), PG("S", 0, 1), PG("T", 0, 1) }
          \cup { PKB("Ket", <<0>>), PKB("Ket", <<1>>), PKB("Ket", <<1, 0>>), PKB("Bra", <<0>>), PKB("Bra", <<1>>) }
          \cup { MG("Measure", 1, 1, 0, <<>>, <<>>), MG("Measure", 1, 0, 0, <<>>, <<>>), MG("Measure", 1, 1, 1, <<>>, <<>>),
                 MG("Measure", 1, 0, 1, <<>>, <<>>) }
          \cup { MG("Discard", 0, 0, 0, t, <<>>) : t \in { <<"q">>, <<"b">> } }
          \cup { PKB("Bits", <<0>>), MG("NOT", 0, 0, 0, <<>>, <<>>), MG("Copy", 0, 0, 0, <<>>, <<>>) }
          \cup { MG("MSwap", 0, 0, 0, <<a>>, <<b>>) : a \in {"q", "b"}, b \in {"q", "b"} }
          \cup { MSC("scalar", 1, 1, 2), MSC("mscalar", 1, 0, 2) }
TBuild == /\ Len(mc.layers) < MaxMLayers
          /\ \E g \in TkMenu, o \in 0..Len(CodTy(mc)) :
               LET ty == CodTy(mc) n == Len(BoxDom(g)) IN
               /\ o + n <= Len(ty) /\ SubSeq(ty, o + 1, o + n) = BoxDom(g)
               /\ Weight(SubSeq(ty, 1, o) \o BoxCod(g) \o SubSeq(ty, o + n + 1, Len(ty))) <= MaxWeight
               /\ mc' = [mc EXCEPT !.layers = Append(mc.layers, [g |-> g, off |-> o])]
          /\ UNCHANGED c
TInit == c = [dom |-> 0, layers |-> <<>>] /\ mc \in { [ty |-> t, layers |-> <<>>] : t \in { <<>>, <<"q">> } }
TSpec == TInit /\ [][TBuild]_<<c, mc>>
\* what is exported is a distribution-valued circuit: its counts are non-negative reals summing to the
\* product of its scalars when it is trace preserving
InvTkCounts == IsTP(mc) => SumAll(Counts(mc)) = ROne
=============================================================================
