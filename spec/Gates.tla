--------------------------------- MODULE Gates ---------------------------------
(***************************************************************************)
(* Pure quantum circuits (C11).  A gate is a record                        *)
(*   [k, ph, bits, dg, sub, re, im, s]                                     *)
(* k : kind ("H", "S", "T", "X", "Y", "Z", "CX", "CZ", "SWAP", "Rx", "Ry", *)
(* "Rz", "CU1", "CRz", "CRx", "Ctrl", "Ket", "Bra", "scalar"), ph : phase  *)
(* in eighths of a full turn, bits : bitstring of a Ket/Bra, dg : dagger   *)
(* flag, sub : the target kind of a controlled gate (with phase ph),       *)
(* (re + i im)/sqrt2^s : value of a scalar.  A circuit is                  *)
(* [dom |-> number of input qubits, layers |-> <<[g, off], ...>>].         *)
(*                                                                         *)
(* CONVENTION (fixed once, DESIGN 5/C11): tensors are indexed [input,      *)
(* output] and compose in diagram order, the leftmost qubit is the most    *)
(* significant; the tensor of a gate named like a tket operation with      *)
(* column-convention unitary U is  GateT[in, out] = U[out, in].            *)
(***************************************************************************)
EXTENDS QMat
M2(a, b, c, e) == [dom |-> <<2>>, cod |-> <<2>>, a |-> <<a, b, c, e>>]              \* rows = input
Diag4(a, b, c, e) == T(<<2, 2>>, <<2, 2>>, LAMBDA r, cc : IF r # cc THEN RZero
                        ELSE IF r = 0 THEN a ELSE IF r = 1 THEN b ELSE IF r = 2 THEN c ELSE e)
Ctl(G) == T(<<2, 2>>, <<2, 2>>, LAMBDA r, c : IF r < 2 \/ c < 2 THEN (IF r = c THEN ROne ELSE RZero)
                                              ELSE Ent(G, r - 2, c - 2))
Base1(k, ph) ==                                   \* one-qubit gates, [in, out]
  CASE k = "H" -> M2(InvS2, InvS2, InvS2, Neg(InvS2))
    [] k = "X" -> M2(RZero, ROne, ROne, RZero)
    [] k = "Y" -> M2(RZero, RI, Neg(RI), RZero)                 \* transpose of [[0, -i], [i, 0]]
    [] k = "Z" -> M2(ROne, RZero, RZero, Neg(ROne))
    [] k = "S" -> M2(ROne, RZero, RZero, RI)
    [] k = "T" -> M2(ROne, RZero, RZero, W(2))
    [] k = "Rx" -> M2(Cos8(ph), Neg(Mul(RI, Sin8(ph))), Neg(Mul(RI, Sin8(ph))), Cos8(ph))
    [] k = "Ry" -> M2(Cos8(ph), Sin8(ph), Neg(Sin8(ph)), Cos8(ph))    \* transpose of [[c, -s], [s, c]]
    [] k = "Rz" -> M2(W((16 - (ph % 16)) % 16), RZero, RZero, W(ph % 16))
PhMod(ph) == ph % 16
BaseT(g) ==
  CASE g.k \in {"H", "X", "Y", "Z", "S", "T", "Rx", "Ry", "Rz"} -> Base1(g.k, PhMod(g.ph))
    [] g.k = "CX" -> Ctl(Base1("X", 0))
    [] g.k = "CZ" -> Ctl(Base1("Z", 0))
    [] g.k = "SWAP" -> SwapT(<<2>>, <<2>>)
    [] g.k = "CU1" -> Diag4(ROne, ROne, ROne, W((2 * PhMod(g.ph)) % 16))      \* e^{2 pi i phase}
    [] g.k = "CRz" -> Ctl(Base1("Rz", PhMod(g.ph)))
    [] g.k = "CRx" -> Ctl(Base1("Rx", PhMod(g.ph)))
    [] g.k = "Ctrl" -> Ctl(IF g.subdg = 1 THEN ConjT(Base1(g.sub, PhMod(g.ph))) ELSE Base1(g.sub, PhMod(g.ph)))
    [] g.k = "Ket" -> T(<<>>, Q(Len(g.bits)), LAMBDA r, c : IF Digits(c, Q(Len(g.bits))) = g.bits THEN ROne ELSE RZero)
    [] g.k = "Bra" -> T(Q(Len(g.bits)), <<>>, LAMBDA r, c : IF Digits(r, Q(Len(g.bits))) = g.bits THEN ROne ELSE RZero)
    [] g.k = "scalar" -> [dom |-> <<>>, cod |-> <<>>, a |-> <<Gauss(g.re, g.im, g.s)>>]
GateT(g) == IF g.dg = 1 THEN ConjT(BaseT(g)) ELSE BaseT(g)
NIn(g) == Len(GateT(g).dom)
NOut(g) == Len(GateT(g).cod)
RECURSIVE SemFrom(_, _, _, _)
SemFrom(M, width, layers, k) ==
  IF k > Len(layers) THEN M
  ELSE LET g == layers[k].g o == layers[k].off t == GateT(g) IN
       SemFrom(TLCEval(MatThen(M, Whisker(Q(o), t, Q(width - o - Len(t.dom))))),
               width - Len(t.dom) + Len(t.cod), layers, k + 1)
Sem(c) == SemFrom(IdT(Q(c.dom)), c.dom, c.layers, 1)
RECURSIVE WidthAfter(_, _, _)
WidthAfter(w, layers, k) == IF k > Len(layers) THEN w
                            ELSE WidthAfter(w - NIn(layers[k].g) + NOut(layers[k].g), layers, k + 1)
Cod(c) == WidthAfter(c.dom, c.layers, 1)
\* rewire(op, a, b) on n qubits: the two-qubit map op acting on qubits a (its first wire) and b
\* (its second wire), identity elsewhere
RewireT(Op, a, b, n) ==
  T(Q(n), Q(n), LAMBDA r, cc :
      LET x == Digits(r, Q(n)) y == Digits(cc, Q(n)) IN
      IF \E k \in 1..n : k # a + 1 /\ k # b + 1 /\ x[k] # y[k] THEN RZero
      ELSE Op.a[(2 * x[a + 1] + x[b + 1]) * 4 + (2 * y[a + 1] + y[b + 1]) + 1])
\* the dagger of a circuit, gate by gate (the mathematical rule: conjugate transpose)
DagGate(g) == IF g.k = "Ket" THEN [g EXCEPT !.k = "Bra"] ELSE IF g.k = "Bra" THEN [g EXCEPT !.k = "Ket"]
              ELSE [g EXCEPT !.dg = 1 - g.dg]

(***************************************************************************)
(* Exhaustive model: circuits over a menu of gates on at most MaxQ qubits. *)
(***************************************************************************)
CONSTANTS MaxQ, MaxLayers, Phases
VARIABLE c
G(k, ph, dg) == [k |-> k, ph |-> ph, bits |-> <<>>, dg |-> dg, sub |-> "", subdg |-> 0, re |-> 0, im |-> 0, s |-> 0]
KB(k, bits) == [G(k, 0, 0) EXCEPT !.bits = bits]
CT(sub, ph, subdg) == [G("Ctrl", ph, 0) EXCEPT !.sub = sub, !.subdg = subdg]
SC(re, im, s) == [G("scalar", 0, 0) EXCEPT !.re = re, !.im = im, !.s = s]
Named == { G(k, 0, 0) : k \in {"H", "X", "Y", "Z", "S", "T", "CX", "CZ", "SWAP"} }
         \cup { G(k, 0, 1) : k \in {"S", "T", "Y", "H"} }
Rotations == { G(k, ph, dg) : k \in {"Rx", "Ry", "Rz", "CU1", "CRz", "CRx"}, ph \in Phases, dg \in 0..1 }
Controlled == { CT(sub, 0, sd) : sub \in {"X", "Y", "Z", "H", "S", "T"}, sd \in 0..1 } \cup { CT("Rz", ph, 0) : ph \in Phases }
Preps == { KB(k, b) : k \in {"Ket", "Bra"}, b \in { <<0>>, <<1>>, <<1, 0>>, <<0, 1>> } }
Scalars == { SC(1, 0, 1), SC(0, 1, 0), SC(1, 1, 2), [SC(0, 1, 0) EXCEPT !.sub = "sqrt"], [SC(1, 1, 0) EXCEPT !.sub = "sqrt"] }
Menu == Named \cup Rotations \cup Controlled \cup Preps \cup Scalars
Init == c \in { [dom |-> n, layers |-> <<>>] : n \in 0..MaxQ }
Build == /\ Len(c.layers) < MaxLayers
         /\ \E g \in Menu, o \in 0..Cod(c) :
              /\ o + NIn(g) <= Cod(c) /\ Cod(c) - NIn(g) + NOut(g) <= MaxQ
              /\ c' = [c EXCEPT !.layers = Append(c.layers, [g |-> g, off |-> o])]
Spec == Init /\ [][Build]_c
NoBra == \A k \in 1..Len(c.layers) : c.layers[k].g.k # "Bra" /\ c.layers[k].g.k # "scalar"
\* gate-only circuits are unitary, circuits with kets isometries:  M M^dagger = Id (exactly)
InvIsometry == NoBra => MatThen(Sem(c), ConjT(Sem(c))) = IdT(Q(c.dom))
\* the dagger rule: the gate-by-gate dagger of the circuit denotes the conjugate transpose
DagC(cc) == [dom |-> Cod(cc),
             layers |-> [k \in 1..Len(cc.layers) |->
                [g |-> DagGate(cc.layers[Len(cc.layers) + 1 - k].g), off |-> cc.layers[Len(cc.layers) + 1 - k].off]]]
InvDagger == Sem(DagC(c)) = ConjT(Sem(c))
=============================================================================
