---------------------------- MODULE Trace_ClassLaws ----------------------------
(***************************************************************************)
(* Trace validation of the dagger-monoidal laws of C02 "in every diagram   *)
(* class".  One line = one law instance evaluated on real diagrams of the  *)
(* circuit, zx, cartesian, biclosed or tensor class:                       *)
(*   law, a, b, c (projected operands), r, r2 (projected results),         *)
(*   k (slice point), eq (the value of python == between the two sides),   *)
(*   exc (exception of the operation, "" if none).                         *)
(* The dagger of a class-specific box is whatever the class says (the      *)
(* adjoint of a measurement is an encoding), so the dagger law is stated   *)
(* on shapes: the dagger swaps domain and codomain of the diagram and of   *)
(* every box, reverses the order of boxes and keeps their offsets, and     *)
(* applying it twice gives the value back.                                 *)
(***************************************************************************)
EXTENDS Diagrams, Json, IOUtils
AsD(o) == Diag(o.dom, o.cod, o.boxes, o.offs)
Shape(d) == [dom |-> d.dom, cod |-> d.cod, offs |-> d.offs,
             bs |-> [k \in 1..Len(d.boxes) |-> <<d.boxes[k].dom, d.boxes[k].cod>>]]
\* shape of the adjoint, from the shape of the diagram alone
DagShape(d) == [dom |-> d.cod, cod |-> d.dom, offs |-> Rev(d.offs),
                bs |-> [k \in 1..Len(d.boxes) |-> <<d.boxes[Len(d.boxes) + 1 - k].cod, d.boxes[Len(d.boxes) + 1 - k].dom>>]]
JLaw(t) ==
  LET a == AsD(t.a) b == AsD(t.b) c == AsD(t.c) r == AsD(t.r) r2 == AsD(t.r2) IN
  IF t.exc # "" THEN "law-operation-raised-on-composable-operands"
  ELSE IF t.law = "then" THEN
       (IF r # Then(a, b) THEN "composite-is-not-the-concatenation" ELSE IF ~WellTyped(r) THEN "composite-ill-typed" ELSE "ok")
  ELSE IF t.law = "tensor" THEN
       (IF r # Tensor(a, b) THEN "tensor-is-not-the-whiskered-composite"
        ELSE IF r2 # r \/ t.eq # 1 THEN "tensor-differs-from-explicit-whiskering" ELSE "ok")
  ELSE IF t.law = "dagger" THEN
       (IF Shape(r) # DagShape(a) THEN "dagger-is-not-identity-on-objects-or-does-not-reverse"
        ELSE IF ~WellTyped(r) THEN "dagger-ill-typed"
        ELSE IF r2 # a \/ t.eq # 1 THEN "dagger-is-not-involutive" ELSE "ok")
  ELSE IF t.law = "anticomp" THEN      \* a = (x >> y)^dagger observed, b = y^dagger, c = x^dagger
       (IF a # Then(b, c) \/ t.eq # 1 THEN "dagger-does-not-reverse-composition" ELSE "ok")
  ELSE IF t.law = "slice" THEN
       (IF Len(t.b.boxes) # t.k \/ Then(b, c) # a \/ t.eq # 1 THEN "slices-do-not-compose-back" ELSE "ok")
  ELSE IF t.law = "assoc" THEN
       (IF r # Then(Then(a, b), c) \/ r2 # r \/ t.eq # 1 THEN "composition-not-associative" ELSE "ok")
  ELSE IF t.law = "tassoc" THEN
       (IF r # Tensor(Tensor(a, b), c) \/ r2 # r \/ t.eq # 1 THEN "tensor-not-associative" ELSE "ok")
  ELSE IF t.law = "unit" THEN
       (IF r # a \/ r2 # a \/ t.eq # 1 THEN "identity-is-not-a-unit" ELSE "ok")
  ELSE "unknown-law"
Verdicts == LET TR == ndJsonDeserialize(IOEnv.TRACE_FILE) IN [l \in 1..Len(TR) |-> [v |-> <<JLaw(TR[l])>>]]
ASSUME ndJsonSerialize(IOEnv.OUT, Verdicts)
VARIABLE z
TVInit == z = 0
TVNext == UNCHANGED z
=============================================================================
