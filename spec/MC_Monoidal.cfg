SPECIFICATION Spec
CONSTANTS MaxBoxes = 3
          MaxWidth = 3
VIEW View
INVARIANT InvWellTyped
INVARIANT InvResultsWellTyped
INVARIANT InvInterchange
INVARIANT InvLaws
INVARIANT InvNormalForm
CHECK_DEADLOCK FALSE
