---------------------------- MODULE Trace_Diagram ----------------------------
(***************************************************************************)
(* Trace validation for the diagram API (C01, C02, C05, C06).              *)
(*                                                                         *)
(* One ndjson line = one history: a start diagram t.d and a list of calls  *)
(* made by the harness on the real library.  A call record is              *)
(*   [op, i, j, g, p, ref, exc, res, steps]                                *)
(* p = 0: the call was made on t.d; p = m > 0: on the value returned by    *)
(* call m of the same line (histories).  res is the projection of the      *)
(* returned diagram *including the library's layer view*; exc the name of  *)
(* the exception class ("" if none); steps the diagrams yielded by a       *)
(* generator.  The operator selected by the environment variable JUDGE     *)
(* names, for every call, the first clause of the property that the        *)
(* observation violates ("ok" if none); verdicts are total (one per call). *)
(***************************************************************************)
EXTENDS DiagramMachine, Json, IOUtils

AsDiag(o) == Diag(o.dom, o.cod, o.boxes, o.offs)
Pre(t, k) == IF t.calls[k].p = 0 THEN t.d ELSE AsDiag(t.calls[t.calls[k].p].res)
Refusable == {"gen", "ctor", "retype", "then", "thenSelf", "index"}
Algebra   == {"gen", "ctor", "retype", "then", "thenSelf", "tensorR", "tensorL", "tensorSelf",
              "dagger", "slice", "rslice", "index"}

\* the specification's answer to a call; "ctor" is the constructor called with the
\* boxes of pre plus one more box at offset i (same meaning as "gen")
SpecRes(pre, c) == IF c.op = "ctor" THEN ApiRes(pre, [c EXCEPT !.op = "gen"]) ELSE ApiRes(pre, c)

(* C01 : what is handed back is well-typed, with an agreeing layer view;   *)
(*       ill-typed requests are refused.                                   *)
J01(t, k) ==
  LET c == t.calls[k] pre == Pre(t, k) IN
  IF c.op = "normalize" THEN
     IF \E s \in 1..Len(c.steps) : FirstFailing(c.steps[s]) # "ok"
     THEN FirstFailing(c.steps[CHOOSE s \in 1..Len(c.steps) : FirstFailing(c.steps[s]) # "ok"])
     ELSE "ok"
  ELSE IF c.exc # "" THEN "ok"
  ELSE IF FirstFailing(c.res) # "ok" THEN FirstFailing(c.res)
  ELSE IF c.op \in Refusable /\ SpecRes(pre, c).e # "" THEN "ill-typed-request-not-refused"
  ELSE "ok"

(* C02 : the value returned is the one the strict monoidal structure       *)
(*       defines (Then, Tensor, Dagger, PySlice of Diagrams.tla).          *)
J02(t, k) ==
  LET c == t.calls[k] pre == Pre(t, k) IN
  IF c.op \notin Algebra THEN "ok"
  ELSE LET exp == SpecRes(pre, c) IN
       IF exp.e = "" /\ c.exc # "" THEN "well-typed-request-refused"
       ELSE IF exp.e # "" /\ c.exc = "" THEN "ill-typed-request-not-refused"
       ELSE IF exp.e = "" /\ AsDiag(c.res) # exp.s THEN "value-differs"
       ELSE "ok"

(* C05 : interchange(i, j, left)                                           *)
J05(t, k) ==
  LET c == t.calls[k] pre == Pre(t, k) n == Len(pre.boxes) IN
  IF c.op # "interchange" THEN "ok"
  ELSE IF ~(0 <= c.i /\ c.i < n /\ 0 <= c.j /\ c.j < n)
       THEN (IF c.exc = "IndexError" THEN "ok" ELSE "index-not-refused")
  ELSE LET M == Move({pre}, FALSE, c.i + 1, c.j + 1) IN
       \* a refusal needs an obstruction on the way; "the way" is the one the requested preference takes
       \* (at a pair that commutes in both directions left = True passes on the left, otherwise on the right)
       IF c.exc = "InterchangerError" THEN
          (IF ~M[2] THEN "refused-unobstructed-move"
           ELSE IF InterchangeAlg(pre, c.i, c.j, c.g = 1).e = "" THEN "refused-although-the-requested-side-is-free"
           ELSE "ok")
       ELSE IF c.exc # "" THEN "unexpected-exception"
       \* the horizontal attachment of every box as the library's own layer view records it must be the one its offsets say
       ELSE IF FirstFailing(c.res) # "ok" THEN "interchanged-diagram-" \o FirstFailing(c.res)
       ELSE IF AsDiag(c.res) \in M[1] THEN "ok"
       ELSE IF M[1] = {} THEN "obstructed-move-not-refused"
       ELSE "result-not-admissible"

(* C06 : normal_form / normalize                                           *)
StepLegal(a, b) == \E p \in 1..(Len(a.boxes) - 1) : b \in Adj(a, p)
\* Class(pre) is only enumerated for small diagrams; for the long instances (spirals)
\* reachability is established by the recorded normalize() steps, each of which must be
\* a single admissible interchange, and the normal form must be the last of them.
SmallEnough(pre) == Len(pre.boxes) <= 6
LastStepOf(t, c) == LET n == t.calls[c.ref] IN
                    IF Len(n.steps) = 0 THEN Pre(t, c.ref) ELSE AsDiag(n.steps[Len(n.steps)])
J06(t, k) ==
  LET c == t.calls[k] pre == Pre(t, k) IN
  IF c.op = "normal_form" THEN
     IF Connected(pre) THEN
        IF c.exc # "" THEN "connected-diagram-not-normalised"
        ELSE LET r == AsDiag(c.res) IN
             IF SmallEnough(pre) /\ r \notin Class(pre) THEN "not-reachable-by-interchanges"
             ELSE IF ~SameBoxes(r, pre) \/ r.dom # pre.dom \/ r.cod # pre.cod \/ ~WellTyped(r)
                  THEN "not-reachable-by-interchanges"
             ELSE IF c.ref > 0 /\ t.calls[c.ref].op = "normalize" /\ t.calls[c.ref].exc = ""
                     /\ r # LastStepOf(t, c)
                  THEN "normal-form-is-not-the-last-normalize-step"
             ELSE IF c.ref > 0 /\ t.calls[c.ref].op = "normal_form" /\ t.calls[c.ref].exc = ""
                     /\ r # AsDiag(t.calls[c.ref].res)
                  THEN "class-members-have-different-normal-forms"
             ELSE "ok"
     ELSE IF c.exc = "NotImplementedError" THEN "ok"
     ELSE IF c.exc = "Timeout" THEN "non-termination-not-reported-as-NotImplementedError"
     ELSE IF c.exc # "" THEN "unexpected-exception"
     ELSE IF SmallEnough(pre) /\ AsDiag(c.res) \notin Class(pre) THEN "not-reachable-by-interchanges"
     ELSE "ok"
  ELSE IF c.op = "foliate" THEN
     \* foliation().flatten() is reachable by interchanges; depth() lies between the longest chain of
     \* connected boxes and the number of boxes
     IF c.exc # "" THEN "foliation-raised"
     ELSE LET r == AsDiag(c.res) IN
          IF SmallEnough(pre) /\ r \notin Class(pre) THEN "foliation-not-reachable-by-interchanges"
          ELSE IF ~SameBoxes(r, pre) \/ r.dom # pre.dom \/ r.cod # pre.cod THEN "foliation-not-reachable-by-interchanges"
          ELSE IF c.aux < LongestChain(pre) \/ c.aux > Len(pre.boxes) THEN "depth-out-of-bounds"
          ELSE "ok"
  ELSE IF c.op = "normalize" THEN
     LET seq == <<pre>> \o [s \in 1..Len(c.steps) |-> AsDiag(c.steps[s])] IN
     IF \E s \in 1..Len(c.steps) : ~StepLegal(seq[s], seq[s + 1]) THEN "step-not-a-single-interchange"
     ELSE IF c.exc \notin {"", "Truncated"} THEN "unexpected-exception"
     ELSE IF c.exc = "Truncated" /\ Connected(pre) THEN "connected-diagram-does-not-terminate"
     ELSE "ok"
  ELSE "ok"

\* algorithm-level agreement (never a verdict; reported as MODEL-DRIFT)
JDrift(t, k) ==
  LET c == t.calls[k] pre == Pre(t, k) IN
  IF c.op \in {"interchange", "normal_form"} THEN
     LET exp == SpecRes(pre, c) IN
     IF exp.e # c.exc THEN "drift-exception"
     ELSE IF exp.e = "" /\ AsDiag(c.res) # exp.s THEN "drift-value" ELSE "ok"
  ELSE "ok"

Judge(t, k) ==
  IF ~WellTyped(Pre(t, k)) THEN "pre-state-ill-typed"
  ELSE CASE IOEnv.JUDGE = "J01" -> J01(t, k)
         [] IOEnv.JUDGE = "J02" -> J02(t, k)
         [] IOEnv.JUDGE = "J05" -> J05(t, k)
         [] IOEnv.JUDGE = "J06" -> J06(t, k)
         [] IOEnv.JUDGE = "JDrift" -> JDrift(t, k)

\* (LET-bound so that the file is read once: zero-arity definitions of an
\*  instantiated module are re-evaluated at every use)
Verdicts == LET T == ndJsonDeserialize(IOEnv.TRACE_FILE) IN
  [l \in 1..Len(T) |-> LET t == T[l] IN
     [v |-> [k \in 1..Len(t.calls) |-> Judge(t, k)]]]
\* the top-level module states:  ASSUME ndJsonSerialize(IOEnv.OUT, Verdicts)

TVInit == d = IdD(<<>>) /\ last = Call("init", 0, 0, 0)
TVNext == UNCHANGED vars
=============================================================================
