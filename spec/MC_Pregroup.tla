----------------------------- MODULE MC_Pregroup -----------------------------
(***************************************************************************)
(* Exhaustive model of eager pregroup parsing: every sequence of at most   *)
(* MaxWords words from a fixed vocabulary (names n = 1, s = 2), every      *)
(* target; the machine contracts the leftmost adjacent pair.  Invariant:   *)
(* whenever the eager strategy reports success, the recorded cups are a    *)
(* legal reduction of the sentence to the target (Alg => Prop).            *)
(***************************************************************************)
EXTENDS Grammar, Json, IOUtils
CONSTANT MaxWords
N(z) == <<1, z>>
S(z) == <<2, z>>
Vocab == << <<N(0)>>,                      \* Alice
            <<N(1), S(0), N(-1)>>,         \* loves   n.r s n.l
            <<N(1), S(0)>>,                \* sleeps  n.r s
            <<N(0), N(-1)>>,               \* the     n n.l
            <<S(1), N(2), N(1), S(0)>>,    \* who-like  s.r n.r.r n.r s
            <<S(-1)>> >>                   \* s.l (never contracts with what precedes)
ASSUME JsonSerialize(IOEnv.LIB_OUT, Vocab)
Targets == { <<S(0)>>, <<N(0)>>, <<>>, <<N(0), S(0)>> }
VARIABLES sent, target, scan, cups, status
vars == <<sent, target, scan, cups, status>>
Sents == UNION { [1..n -> 1..Len(Vocab)] : n \in 0..MaxWords }
WordsOf(s) == [k \in 1..Len(s) |-> Vocab[s[k]]]
Init == /\ sent \in Sents /\ target \in Targets
        /\ scan = Concat(WordsOf(sent)) /\ cups = <<>> /\ status = "parsing"
\* one iteration of eager_parse's while-loop
Step == /\ status = "parsing"
        /\ IF HasPair(scan)
           THEN LET i == Leftmost(scan) IN
                /\ scan' = ContractRes(scan, i) /\ cups' = Append(cups, i)
                /\ status' = IF ContractRes(scan, i) = target THEN "done" ELSE "parsing"
           ELSE /\ status' = IF scan = target THEN "done" ELSE "failed"
                /\ UNCHANGED <<scan, cups>>
        /\ UNCHANGED <<sent, target>>
Spec == Init /\ [][Step]_vars
CupBoxes(sc, os) == [k \in 1..Len(os) |-> [id |-> 0, kind |-> 2, dom |-> <<>>, cod |-> <<>>, dg |-> 0]]
\* replaying the recorded cup offsets from the sentence is legal and ends in the current scan
RECURSIVE Replay(_, _, _)
Replay(sc, os, k) == IF k > Len(os) THEN sc
                     ELSE IF ~Contractible(sc, os[k]) THEN <<"illegal">> ELSE Replay(ContractRes(sc, os[k]), os, k + 1)
InvLegal == Replay(Concat(WordsOf(sent)), cups, 1) = scan
InvDone == status = "done" => scan = target
InvEager == LET r == Eager(Concat(WordsOf(sent)), target, <<>>) IN
            /\ (status = "done" => r.e = "" /\ r.offs = cups)
            /\ (status = "failed" => r.e = "NotImplementedError")
=============================================================================
