------------------------------- MODULE SigTie -------------------------------
(* A two-generator signature (split y -> x x and state -> x, plus their      *)
(* daggers through Lib) for deeper exhaustive exploration: it produces       *)
(* connected diagrams in which an effect is immediately followed by a state  *)
(* at the same offset, the pairs that commute in both directions (ties).     *)
EXTENDS Naturals, Sequences
x == <<1, 0>>
y == <<2, 0>>
B(id, dm, cd) == [id |-> id, kind |-> 0, dom |-> dm, cod |-> cd, dg |-> 0]
SigT == << B(2, <<y>>, <<x, x>>), B(4, <<>>, <<x>>) >>
DomsT == { <<y>>, <<x, x>>, <<x>> }
=============================================================================
