----------------------------- MODULE Trace_Tensor -----------------------------
(***************************************************************************)
(* Trace validation for C08.  One line = one operation of discopy.Tensor   *)
(* made on the real library with Gaussian-integer data (exact in floats):  *)
(*   op, a, b : tensors [dom, cod, a] (unused operands are the empty       *)
(*   tensor), l, r : raw dimension tuples (may contain 1s, which Dim       *)
(*   drops), res : the returned tensor, exc.                               *)
(***************************************************************************)
EXTENDS GaussMat, Json, IOUtils
Same(x, y) == x.dom = y.dom /\ x.cod = y.cod /\ x.a = y.a
Expect(t) ==
  CASE t.op = "then"   -> MatThen(t.a, t.b)
    [] t.op = "tensor" -> Kron(t.a, t.b)
    [] t.op = "dagger" -> ConjT(t.a)
    [] t.op = "id"     -> IdT(Norm1(t.l))
    [] t.op = "swap"   -> SwapT(Norm1(t.l), Norm1(t.r))
    [] t.op = "cups"   -> CupT(Norm1(t.l))
    [] t.op = "caps"   -> CapOf(Norm1(t.l))
    [] t.op = "snakeL" -> IdT(Norm1(t.l))
    [] t.op = "snakeR" -> IdT(Norm1(t.l))
    [] t.op = "interchange" -> Kron(t.a, t.b)
    [] t.op = "swapnat" -> MatThen(Kron(t.a, t.b), SwapT(t.a.cod, t.b.cod))
J08(t) ==
  IF t.op = "then" /\ t.a.cod # t.b.dom THEN (IF t.exc # "" THEN "ok" ELSE "non-composable-tensors-not-refused")
  ELSE IF t.exc # "" THEN "operation-raised"
  ELSE LET e == Expect(t) IN
       IF t.res.dom # e.dom \/ t.res.cod # e.cod THEN "wrong-domain-or-codomain"
       ELSE IF Len(t.res.a) # Len(e.a) THEN "wrong-array-size"
       ELSE IF t.res.a # e.a THEN
            CASE t.op = "then" -> "composition-is-not-the-matrix-product"
              [] t.op = "tensor" -> "tensor-is-not-the-kronecker-product"
              [] t.op = "dagger" -> "dagger-is-not-the-conjugate-transpose"
              [] t.op = "id" -> "identity-is-not-the-identity-matrix"
              [] t.op = "swap" -> "swap-is-not-the-block-permutation-matrix"
              [] t.op \in {"cups", "caps"} -> "cup-or-cap-is-not-the-nested-identity-vector"
              [] t.op \in {"snakeL", "snakeR"} -> "snake-equation-fails"
              [] t.op = "interchange" -> "interchange-law-fails"
              [] t.op = "swapnat" -> "swap-not-natural"
       ELSE "ok"
Verdicts == LET TR == ndJsonDeserialize(IOEnv.TRACE_FILE) IN [l \in 1..Len(TR) |-> [v |-> <<J08(TR[l])>>]]
ASSUME ndJsonSerialize(IOEnv.OUT, Verdicts)
VARIABLE z
TVInit == z = 0
TVNext == UNCHANGED z
=============================================================================
