-------------------------------- MODULE Perm --------------------------------
(***************************************************************************)
(* Swaps and permutations (C10).  The state is an arrangement of labelled  *)
(* wires; the only step is AdjSwap(o), exchanging the wires at positions   *)
(* o, o+1 (0-based offset o).  A diagram made of swap boxes *is* an event  *)
(* log of AdjSwap steps.                                                   *)
(*                                                                         *)
(* Property level: SwapProp / PermProp (what the arrangement must be at    *)
(* the end).  Algorithm level: the library's recursive swap and its        *)
(* selection-sort style permutation loop, as a machine whose steps are the *)
(* same AdjSwap events.                                                    *)
(***************************************************************************)
EXTENDS Naturals, Integers, Sequences, FiniteSets, TLC

Slice(s, a, b) == SubSeq(s, a + 1, b)
Iota(n) == [k \in 1..n |-> k]                      \* labels 1..n in input order
AdjSwapOn(arr, o) == [arr EXCEPT ![o + 1] = arr[o + 2], ![o + 2] = arr[o + 1]]
RECURSIVE RunOffs(_, _, _)
RunOffs(arr, offs, k) == IF k > Len(offs) THEN arr ELSE RunOffs(AdjSwapOn(arr, offs[k]), offs, k + 1)

IsPerm(p) == {p[k] : k \in 1..Len(p)} = 0..(Len(p) - 1)
\* swap(l, r): the nl left wires end up, in order, to the right of the nr right wires
SwapFinal(nl, nr) == [k \in 1..(nl + nr) |-> IF k <= nr THEN nl + k ELSE k - nr]
\* permutation(p): input wire w (label w, 0-based position w-1) ends at position p[w]
PermOK(p, arr) == \A w \in 1..Len(p) : arr[p[w] + 1] = w

(***************************************************************************)
(* Algorithm level.                                                        *)
(***************************************************************************)
Range(a, n) == [k \in 1..n |-> a + k - 1]
RECURSIVE SwapOffs(_, _, _)
SwapOffs(nl, nr, base) ==           \* offsets of the swap boxes of swap(l, r) placed at offset base
  IF nl = 0 THEN <<>>
  ELSE IF nl = 1 THEN Range(base, nr)
  ELSE SwapOffs(nl - 1, nr, base + 1) \o SwapOffs(1, nr, base)
IndexOf(p, v) == CHOOSE k \in 1..Len(p) : p[k] = v          \* 1-based

VARIABLES req,      \* [kind |-> "swap", nl, nr] or [kind |-> "perm", p]
          arr,      \* current arrangement of labels
          pm,       \* the permutation as rewritten by the loop
          i,        \* loop counter of permutation()
          todo,     \* offsets of the swap boxes still to be emitted in this iteration
          log       \* offsets emitted so far (= the offsets of the returned diagram)
vars == <<req, arr, pm, i, todo, log>>

CONSTANT MaxN
Perms(n) == { p \in [1..n -> 0..(n - 1)] : IsPerm(p) }
Requests == { [kind |-> "swap", nl |-> a, nr |-> b, p |-> <<>>] : a \in 0..MaxN, b \in 0..MaxN }
       \cup { [kind |-> "perm", nl |-> 0, nr |-> 0, p |-> p] : p \in UNION { Perms(n) : n \in 0..MaxN } }

Init == /\ req \in Requests
        /\ arr = Iota(IF req.kind = "swap" THEN req.nl + req.nr ELSE Len(req.p))
        /\ pm = req.p /\ i = 0 /\ log = <<>>
        /\ todo = IF req.kind = "swap" THEN SwapOffs(req.nl, req.nr, 0) ELSE <<>>
AdjSwap == /\ todo # <<>>
           /\ arr' = AdjSwapOn(arr, Head(todo))
           /\ log' = Append(log, Head(todo))
           /\ todo' = Tail(todo)
           /\ UNCHANGED <<req, pm, i>>
\* one iteration of `for i in range(len(dom))`: j = perm.index(i); emit swap(cod[i:j], cod[j:j+1]) at i
Iterate == /\ req.kind = "perm" /\ todo = <<>> /\ i < Len(pm)
           /\ LET j == IndexOf(pm, i) - 1 IN
              /\ todo' = SwapOffs(j - i, 1, i)
              /\ pm' = Slice(pm, 0, i) \o <<i>> \o Slice(pm, i, j) \o Slice(pm, j + 1, Len(pm))
           /\ i' = i + 1
           /\ UNCHANGED <<req, arr, log>>
Next == AdjSwap \/ Iterate
Spec == Init /\ [][Next]_vars

Finished == todo = <<>> /\ (req.kind = "swap" \/ i = Len(pm))
InvOffsetsInRange == todo # <<>> => Head(todo) + 2 <= Len(arr)
InvSwap == (Finished /\ req.kind = "swap") => arr = SwapFinal(req.nl, req.nr)
InvPerm == (Finished /\ req.kind = "perm") => PermOK(req.p, arr)
\* the log replayed from the identity arrangement gives the current arrangement
InvLog == RunOffs(Iota(Len(arr)), log, 1) = arr
=============================================================================
