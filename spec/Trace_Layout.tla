----------------------------- MODULE Trace_Layout -----------------------------
(***************************************************************************)
(* Trace validation for C20.  One line = one diagram shape (t.dm, t.bs)    *)
(* and what the real library computed for it:                              *)
(*   nodes, edges : the graph and coordinates returned by diagram2nx       *)
(*                  (x scaled by K, y by 4; exact, the harness checks it), *)
(*   tikz, mat    : exception raised by Diagram.draw with the TikZ /       *)
(*                  matplotlib back-end ("" = rendered, "-" = not tried),  *)
(*   dz           : outcome of declaring the diagram with diagramize       *)
(*                  ("" = equal to the diagram, "-" = not tried, else the  *)
(*                  exception name or "differs").                          *)
(***************************************************************************)
EXTENDS Layout, Json, IOUtils

EdgeSet(t) == { <<t.edges[k][1], t.edges[k][2]>> : k \in 1..Len(t.edges) }
NonTrivial(t) == t.dm > 0 \/ Len(t.bs) > 0
J20(t) ==
  LET p == t.nodes IN
  IF NodeIds(p) # ExpectedNodes(t.dm, t.bs) \/ Len(p) # Cardinality(ExpectedNodes(t.dm, t.bs))
     THEN "not-one-node-per-input-output-box-and-port"
  ELSE IF EdgeSet(t) # ExpectedEdges(t.dm, t.bs) THEN "edges-do-not-reproduce-the-wiring"
  ELSE IF ~OrderOK(t.dm, t.bs, p) THEN "open-wires-not-in-strictly-increasing-order"
  ELSE IF ~VerticalOK(t.dm, t.bs, p) THEN "wire-not-vertical"
  ELSE IF ~DownOK(t.dm, t.bs, p) THEN "edge-does-not-point-downwards"
  ELSE IF ~BoxBetweenOK(t.dm, t.bs, p) THEN "box-not-strictly-between-neighbouring-wires"
  ELSE IF NonTrivial(t) /\ t.tikz \notin {"", "-"} THEN "tikz-backend-raises"
  ELSE IF NonTrivial(t) /\ t.mat \notin {"", "-"} THEN "matplotlib-backend-raises"
  ELSE IF t.dz \notin {"", "-"} THEN "diagramize-does-not-give-the-declared-wiring"
  ELSE "ok"
\* algorithm level: the coordinates are the ones the transcription computes
JDrift(t) ==
  IF { t.nodes[k] : k \in 1..Len(t.nodes) } = { LayoutAlg(t.dm, t.bs)[k] : k \in 1..Len(LayoutAlg(t.dm, t.bs)) }
  THEN "ok" ELSE "drift-coordinates"
Verdicts == LET T == ndJsonDeserialize(IOEnv.TRACE_FILE) IN
  [l \in 1..Len(T) |-> [v |-> <<IF IOEnv.JUDGE = "JDrift" THEN JDrift(T[l]) ELSE J20(T[l])>>]]
ASSUME ndJsonSerialize(IOEnv.OUT, Verdicts)
TVInit == dm = 0 /\ bs = <<>>
TVNext == UNCHANGED vars
=============================================================================
