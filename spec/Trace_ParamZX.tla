----------------------------- MODULE Trace_ParamZX -----------------------------
(***************************************************************************)
(* C14 for ZX diagrams.  One line: a ZX diagram given as a sequence of     *)
(* boxes [k, n, m, pf, par] (spiders with a phase form, scalars with a     *)
(* data form, Hadamards and swaps without parameter), a chain of           *)
(* substitution steps, the projected boxes of the real result and the free *)
(* symbols reported before and after, and (lam = 1: the last step gives    *)
(* numbers) the boxes of the lambdified diagram called on those numbers.   *)
(* ZX diagrams have no evaluation in                                       *)
(* this version of the library: the claim checked is the structural one    *)
(* (kinds, legs and non-numeric attributes unchanged; parameters           *)
(* substituted; free symbols exact; none left after a closing step).       *)
(***************************************************************************)
EXTENDS Param, Json, IOUtils
PhasesQ == {1}
SubsZ(b, ps) == IF b.par = 1 THEN [b EXCEPT !.pf = SubsForm(b.pf, ps)] ELSE b
RECURSIVE ChainZ(_, _, _)
ChainZ(bs, chain, k) == IF k > Len(chain) THEN bs
                        ELSE ChainZ([i \in 1..Len(bs) |-> SubsZ(bs[i], chain[k])], chain, k + 1)
FSZ(bs) == UNION { IF bs[i].par = 1 THEN FS(bs[i].pf) ELSE {} : i \in 1..Len(bs) }
SetOfZ(s) == { s[k] : k \in 1..Len(s) }
Strip(bs) == [i \in 1..Len(bs) |-> [bs[i] EXCEPT !.pf = Const(0)]]
OutZ(t) ==
  LET want == ChainZ(t.boxes, t.chain, 1) IN
  [v |-> << IF t.exc # "" THEN "substitution-raised"
            ELSE IF Strip(t.res) # Strip(want) \/ t.roffs # t.offs THEN "substitution-changed-kinds-legs-or-offsets"
            ELSE IF t.res # want THEN "substituted-parameters-differ"
            ELSE IF SetOfZ(t.fs0) # FSZ(t.boxes) THEN "free-symbols-of-the-diagram-wrong"
            ELSE IF SetOfZ(t.fs1) # FSZ(want) THEN "free-symbols-after-substitution-wrong"
            ELSE IF t.lam = 1 /\ t.lexc # "" THEN "lambdify-raised"
            ELSE IF t.lam = 1 /\ t.lres # want THEN "lambdified-diagram-differs-from-the-substituted-one"
            ELSE "ok" >>]
Verdicts == LET TR == ndJsonDeserialize(IOEnv.TRACE_FILE) IN [l \in 1..Len(TR) |-> OutZ(TR[l])]
ASSUME ndJsonSerialize(IOEnv.OUT, Verdicts)
TVInit == PInit
TVNext == UNCHANGED <<c, mc, pc, hist>>
=============================================================================
