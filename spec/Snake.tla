-------------------------------- MODULE Snake --------------------------------
(***************************************************************************)
(* Snake removal for rigid diagrams (C07).                                 *)
(*                                                                         *)
(* Atoms are <<name, winding>>.  Boxes carry kind 0 (box), 2 (cup),        *)
(* 3 (cap).  Property level: which pairs may be yanked (SnakePairs) and    *)
(* what a yank step is (YankRes).  Algorithm level: a transcription of     *)
(* rewriting.snake_removal (follow_wire, find_snake, unsnake with its two  *)
(* obstruction loops and their re-indexing).                               *)
(***************************************************************************)
EXTENDS Diagrams

IsCup(b) == b.kind = 2
IsCap(b) == b.kind = 3
AdjR(a) == <<a[1], a[2] + 1>>                    \* right adjoint of an atom
AdjL(a) == <<a[1], a[2] - 1>>
Adjoint(a, b) == b = AdjR(a) \/ a = AdjR(b)       \* what Cup/Cap.__init__ accept

OKr(s)  == [e |-> "", s |-> s]
ERRr(m, s) == [e |-> m, s |-> s]

(***************************************************************************)
(* follow_wire: from box i (0-based) follow the wire at scan position j    *)
(* downwards.  Returns <<i, j, left obstructions, right obstructions>>     *)
(* with i = number of boxes when the wire reaches the bottom boundary.     *)
(***************************************************************************)
RECURSIVE Follow(_, _, _, _, _)
Follow(dd, i, j, lo, ro) ==
  IF ~(i < Len(dd.boxes) - 1) THEN <<Len(dd.boxes), j, lo, ro>>
  ELSE LET i2 == i + 1  box == dd.boxes[i2 + 1]  off == dd.offs[i2 + 1] IN
       IF off <= j /\ j < off + Len(box.dom) THEN <<i2, j, lo, ro>>
       ELSE IF off <= j THEN Follow(dd, i2, j + Len(box.cod) - Len(box.dom), Append(lo, i2), ro)
       ELSE Follow(dd, i2, j, lo, Append(ro, i2))

\* candidates <<cap index (0-based), left_snake>> whose followed leg enters the
\* opposite leg of a cup (geometry only)
FollowFrom(dd, c) == Follow(dd, c[1], IF c[2] THEN dd.offs[c[1] + 1] ELSE dd.offs[c[1] + 1] + 1, <<>>, <<>>)
Geometric(dd) ==
  { c \in (0..(Len(dd.boxes) - 1)) \X {TRUE, FALSE} :
      /\ IsCap(dd.boxes[c[1] + 1])
      /\ LET f == FollowFrom(dd, c) IN
         /\ f[1] # Len(dd.boxes) /\ IsCup(dd.boxes[f[1] + 1])
         /\ IF c[2] THEN dd.offs[f[1] + 1] + 1 = f[2] ELSE dd.offs[f[1] + 1] = f[2] }
\* the type of the wire that remains after the yank must be the same on both
\* sides: the other leg of the cap and the other leg of the cup (snake equation)
ThroughTypesMatch(dd, c) ==
  LET f == FollowFrom(dd, c) cap == dd.boxes[c[1] + 1] cup == dd.boxes[f[1] + 1] IN
  IF c[2] THEN cap.cod[2] = cup.dom[1]     \* left snake: Id @ Cap >> Cup @ Id
  ELSE cap.cod[1] = cup.dom[2]             \* right snake: Cap @ Id >> Id @ Cup
SnakePairs(dd) == { c \in Geometric(dd) : ThroughTypesMatch(dd, c) }
HasSnake(dd) == SnakePairs(dd) # {}

(***************************************************************************)
(* Property level: a yank removes a cap at position p (1-based) and a cup  *)
(* at p + 1 that form a snake; everything else is unchanged.               *)
(***************************************************************************)
YankOK(dd, p) ==
  /\ p >= 1 /\ p + 1 <= Len(dd.boxes)
  /\ IsCap(dd.boxes[p]) /\ IsCup(dd.boxes[p + 1])
  /\ \/ /\ dd.offs[p + 1] + 1 = dd.offs[p]                         \* left snake
        /\ dd.boxes[p].cod[2] = dd.boxes[p + 1].dom[1]
     \/ /\ dd.offs[p + 1] = dd.offs[p] + 1                         \* right snake
        /\ dd.boxes[p].cod[1] = dd.boxes[p + 1].dom[2]
YankRes(dd, p) == [dd EXCEPT !.boxes = SubSeq(dd.boxes, 1, p - 1) \o SubSeq(dd.boxes, p + 2, Len(dd.boxes)),
                             !.offs  = SubSeq(dd.offs, 1, p - 1) \o SubSeq(dd.offs, p + 2, Len(dd.offs))]
\* a yielded interchange step is the result of one call interchange(i, j): the box at
\* i moved to j by admissible adjacent exchanges
StepIsInterchange(a, b) == \E i, j \in 1..Len(a.boxes) : i # j /\ b \in Move({a}, FALSE, i, j)[1]
StepIsYank(a, b) == \E p \in 1..(Len(a.boxes) - 1) : YankOK(a, p) /\ b = YankRes(a, p)

(***************************************************************************)
(* Algorithm level (0-based indices as in the code).  TypeGuard selects    *)
(* whether find_snake requires the through types to match (the code after  *)
(* the fix) or not (the code as found).                                    *)
(***************************************************************************)
CONSTANT TypeGuard
Cands(dd) == IF TypeGuard THEN SnakePairs(dd) ELSE Geometric(dd)
FindSnake(dd) ==
  LET C == Cands(dd)
      c == CHOOSE c \in C : \A e \in C : c[1] < e[1] \/ (c[1] = e[1] /\ (c[2] \/ ~e[2]))
      f == FollowFrom(dd, c) IN
  [cup |-> f[1], cap |-> c[1], lo |-> f[3], ro |-> f[4], ls |-> c[2]]

InterTo(r, i, j) == IF r.e # "" THEN r ELSE MoveAlg(r.s, i, j, FALSE)   \* 1-based i, j

RECURSIVE LeftLoopL(_, _, _, _, _)
LeftLoopL(r, lo, ro, cap, k) ==
  IF r.e # "" \/ k > Len(lo) THEN [r |-> r, ro |-> ro, x |-> cap]
  ELSE LET box == lo[k]
           ro2 == [i \in 1..Len(ro) |-> IF ro[i] < box THEN ro[i] + 1 ELSE ro[i]]
       IN LeftLoopL(InterTo(r, box + 1, cap + 1), lo, ro2, cap + 1, k + 1)
RECURSIVE RightLoopL(_, _, _, _)
RightLoopL(r, ro, cup, k) ==
  IF r.e # "" \/ k < 1 THEN [r |-> r, x |-> cup]
  ELSE RightLoopL(InterTo(r, ro[k] + 1, cup + 1), ro, cup - 1, k - 1)
RECURSIVE LeftLoopR(_, _, _, _, _)
LeftLoopR(r, lo, ro, cup, k) ==
  IF r.e # "" \/ k < 1 THEN [r |-> r, ro |-> ro, x |-> cup]
  ELSE LET box == lo[k]
           ro2 == [i \in 1..Len(ro) |-> IF ro[i] > box THEN ro[i] - 1 ELSE ro[i]]
       IN LeftLoopR(InterTo(r, box + 1, cup + 1), lo, ro2, cup - 1, k - 1)
RECURSIVE RightLoopR(_, _, _, _)
RightLoopR(r, ro, cap, k) ==
  IF r.e # "" \/ k > Len(ro) THEN [r |-> r, x |-> cap]
  ELSE RightLoopR(InterTo(r, ro[k] + 1, cap + 1), ro, cap + 1, k + 1)

Unsnake(dd, y) ==
  LET z == IF y.ls
           THEN LET a == LeftLoopL(OKr(dd), y.lo, y.ro, y.cap, 1)
                    b == RightLoopL(a.r, a.ro, y.cup, Len(a.ro)) IN [r |-> b.r, cup |-> b.x, cap |-> a.x]
           ELSE LET a == LeftLoopR(OKr(dd), y.lo, y.ro, y.cup, Len(y.lo))
                    b == RightLoopR(a.r, a.ro, y.cap, 1) IN [r |-> b.r, cup |-> a.x, cap |-> b.x]
  IN IF z.r.e # "" THEN z.r
     ELSE LET s2 == z.r.s  sc == Scans(s2) IN
          IF Len(sc) # Len(s2.boxes) + 1 THEN ERRr("IllTypedIntermediate", dd)
          ELSE IF z.cup # z.cap + 1 THEN ERRr("NotAdjacent", dd)
          \* layers[:cap] >> layers[cup + 1:] must compose
          ELSE IF sc[z.cap + 1] # sc[z.cup + 2] THEN ERRr("AxiomError", dd)
          ELSE OKr(YankRes(s2, z.cap + 1))
RECURSIVE RemoveAll(_, _)
RemoveAll(r, fuel) ==
  IF r.e # "" THEN r ELSE IF fuel = 0 THEN ERRr("Fuel", r.s)
  ELSE IF Cands(r.s) = {} THEN r ELSE RemoveAll(Unsnake(r.s, FindSnake(r.s)), fuel - 1)

(***************************************************************************)
(* Exhaustive model: all rigid diagrams over the signature within bounds.  *)
(***************************************************************************)
CONSTANTS MaxBoxes, MaxWidth, MaxCC, ZMax
VARIABLE d
X(z) == <<1, z>>
Plain(id, dm, cd) == [id |-> id, kind |-> 0, dom |-> dm, cod |-> cd, dg |-> 0]
AdjPairs == { p \in ((0 - ZMax)..ZMax) \X ((0 - ZMax)..ZMax) : p[2] = p[1] + 1 \/ p[1] = p[2] + 1 }
Shapes ==    { Plain(1, <<X(0)>>, <<X(0)>>), Plain(2, <<>>, <<X(0)>>), Plain(3, <<X(1)>>, <<X(1)>>),
               Plain(4, <<X(0), X(0)>>, <<X(0)>>), Plain(5, <<X(0)>>, <<>>), Plain(6, <<>>, <<>>) }
       \cup  { [id |-> 0, kind |-> 2, dom |-> <<X(p[1]), X(p[2])>>, cod |-> <<>>, dg |-> 0] : p \in AdjPairs }
       \cup  { [id |-> 0, kind |-> 3, dom |-> <<>>, cod |-> <<X(p[1]), X(p[2])>>, dg |-> 0] : p \in AdjPairs }
Doms == { <<>>, <<X(0)>>, <<X(1)>>, <<X(-1)>> }
NCC(dd) == Cardinality({ k \in 1..Len(dd.boxes) : dd.boxes[k].kind # 0 })
Init == d \in { IdD(t) : t \in Doms }
Build == /\ Len(d.boxes) < MaxBoxes
         /\ \E b \in Shapes, o \in 0..Len(d.cod) :
              /\ Fits(d.cod, b, o) /\ Len(After(d.cod, b, o)) <= MaxWidth
              /\ (b.kind # 0 => NCC(d) < MaxCC)
              /\ d' = Then(d, Diag(d.cod, After(d.cod, b, o), <<b>>, <<o>>))
Spec == Init /\ [][Build]_d

Result == RemoveAll(OKr(d), 8)
\* the algorithm never fails on a well-typed diagram ...
InvNoError == Result.e = ""
\* ... and its result is well-typed, has the input's type and no snake left
InvResult == Result.e = "" => /\ WellTyped(Result.s) /\ Result.s.dom = d.dom /\ Result.s.cod = d.cod
                              /\ ~HasSnake(Result.s)
\* every yank the algorithm performs is a snake equation (only checked with the guard)
InvOnlySnakes == TypeGuard => (Cands(d) # {} =>
                   LET y == FindSnake(d) IN ThroughTypesMatch(d, <<y.cap, y.ls>>))
=============================================================================
