-------------------------------- MODULE Values --------------------------------
(***************************************************************************)
(* Equality is structural, hash-consistent and printable (C03).            *)
(* The abstract value of an object is its projection: a record             *)
(*   [k, cls, name, z, dom, cod, dg, data, boxes, offs, terms]             *)
(* (k = "ob" | "ty" | "box" | "diagram" | "sum"; unused fields are 0/<<>>).*)
(* Two values of one class must compare equal exactly when their           *)
(* projections are equal.  A pair observation records what python said.    *)
(*                                                                         *)
(* Model: pairs of value descriptors (objects with windings, types, boxes  *)
(* with dagger flags and data payloads); diagrams and sums come from the   *)
(* states of DiagramMachine / Eval / Functor models reached along several  *)
(* construction paths.                                                     *)
(***************************************************************************)
EXTENDS Naturals, Integers, Sequences, FiniteSets, TLC
CONSTANTS ZMax, MaxLen
Names == {1, 2}
Atoms == { <<n, z>> : n \in Names, z \in (0 - ZMax)..ZMax }
Types == UNION { [1..n -> Atoms] : n \in 0..MaxLen }
ObD(a) == [k |-> "ob", name |-> a[1], z |-> a[2], dom |-> <<>>, cod |-> <<>>, dg |-> 0, data |-> 0]
TyD(t) == [k |-> "ty", name |-> 0, z |-> 0, dom |-> t, cod |-> <<>>, dg |-> 0, data |-> 0]
BoxD(id, dm, cd, dg, data) == [k |-> "box", name |-> id, z |-> 0, dom |-> dm, cod |-> cd, dg |-> dg, data |-> data]
\* the empty formal sum (zero arrow) of a given type: its dom and cod are data, not derived from terms
ZeroD(dm, cd) == [k |-> "zero", name |-> 0, z |-> 0, dom |-> dm, cod |-> cd, dg |-> 0, data |-> 0]
SmallTypes == { t \in Types : Len(t) <= 1 }
Descs == { ObD(a) : a \in Atoms } \cup { TyD(t) : t \in Types }
         \cup { ZeroD(dm, cd) : dm \in SmallTypes, cd \in SmallTypes }
         \cup { BoxD(id, dm, cd, dg, data) : id \in 1..2, dm \in SmallTypes, cd \in SmallTypes, dg \in 0..1, data \in 0..2 }
VARIABLE p
Init == p \in { <<a, b>> : a \in Descs, b \in Descs }
Next == UNCHANGED p
Spec == Init /\ [][Next]_p
\* abstract equality is an equivalence whose classes are the projections themselves
AbsEq(a, b) == a = b
InvEquivalence == AbsEq(p[1], p[1]) /\ (AbsEq(p[1], p[2]) <=> AbsEq(p[2], p[1]))

(***************************************************************************)
(* Judge of one recorded pair observation t:                               *)
(*  pa, pb : projections; ab, ba : python a == b, b == a (1/0);            *)
(*  hab : hash(a) == hash(b); rta, rtb : eval(repr(.)) == . (2 = not       *)
(*  applicable); lk : a functor's dict keyed by a looked up with b gives    *)
(*  a's image (2 = n/a); wrap : box == its one-box diagram both ways (2 =  *)
(*  n/a); tr : for a recorded triple, ab /\ bc => ac (2 = n/a).            *)
(***************************************************************************)
JPair(t) ==
  LET same == t.pa = t.pb IN
  IF t.exc # "" THEN "comparison-raised"
  ELSE IF t.ab # t.ba THEN "equality-not-symmetric"
  ELSE IF same /\ t.ab = 0 THEN "same-structure-compares-unequal"
  ELSE IF ~same /\ t.ab = 1 THEN "different-structure-compares-equal"
  ELSE IF t.ab = 1 /\ t.hab = 0 THEN "equal-values-have-different-hashes"
  ELSE IF t.rta = 0 \/ t.rtb = 0 THEN "repr-does-not-evaluate-back-to-an-equal-value"
  ELSE IF t.lk = 0 THEN "equal-key-not-found-in-functor-mapping"
  ELSE IF t.wrap = 0 THEN "box-differs-from-its-one-box-diagram"
  ELSE IF t.tr = 0 THEN "equality-not-transitive"
  ELSE "ok"
=============================================================================
