------------------------------- MODULE Functor -------------------------------
(***************************************************************************)
(* Functors are functorial (C04).  A functor configuration F = [ob, ar]:   *)
(* ob[n] is the image type of the atom named n (winding 0), ar[id] the     *)
(* image diagram of the box named id.  ApplyTy / Apply define the unique   *)
(* strict monoidal (rigid) functor with these images on generators:        *)
(* adjoint atoms go to adjoints of the image (reverse and shift windings), *)
(* daggered boxes to daggers of images, cups / caps to the nested cups /   *)
(* caps of the image types, swaps to the swap diagram of the image types,  *)
(* a diagram to the composite of its whiskered layers.                     *)
(***************************************************************************)
EXTENDS Diagrams

RevT(t) == [k \in 1..Len(t) |-> t[Len(t) + 1 - k]]
TyR(t) == [k \in 1..Len(t) |-> <<RevT(t)[k][1], RevT(t)[k][2] + 1>>]
TyL(t) == [k \in 1..Len(t) |-> <<RevT(t)[k][1], RevT(t)[k][2] - 1>>]
RECURSIVE Adjn(_, _)
Adjn(t, z) == IF z = 0 THEN t ELSE IF z > 0 THEN Adjn(TyR(t), z - 1) ELSE Adjn(TyL(t), z + 1)
RECURSIVE ApplyTy(_, _)
ApplyTy(F, t) == IF t = <<>> THEN <<>> ELSE Adjn(F.ob[t[1][1]], t[1][2]) \o ApplyTy(F, Tail(t))

SwapBox(a, b) == [id |-> 0, kind |-> 1, dom |-> <<a, b>>, cod |-> <<b, a>>, dg |-> 0]
CupBox(a, b)  == [id |-> 0, kind |-> 2, dom |-> <<a, b>>, cod |-> <<>>, dg |-> 0]
CapBox(a, b)  == [id |-> 0, kind |-> 3, dom |-> <<>>, cod |-> <<a, b>>, dg |-> 0]
\* the swap diagram of two types, as monoidal.Diagram.swap builds it
RECURSIVE SwapDiag(_, _)
SwapDiag(l, r) ==
  IF Len(l) = 0 THEN IdD(r)
  ELSE IF Len(l) = 1 THEN Diag(l \o r, r \o l, [i \in 1..Len(r) |-> SwapBox(l[1], r[i])], [i \in 1..Len(r) |-> i - 1])
  ELSE Then(Tensor(IdD(<<l[1]>>), SwapDiag(Tail(l), r)), Tensor(SwapDiag(<<l[1]>>, r), IdD(Tail(l))))
\* nested cups: wire j of left (from the inside out) meets wire i of right
RECURSIVE CupsFrom(_, _, _, _)
CupsFrom(l, r, i, acc) ==
  IF i > Len(l) THEN acc
  ELSE LET j == Len(l) - i + 1 IN       \* 1-based position in l
       CupsFrom(l, r, i + 1,
                Then(acc, Diag(acc.cod, SubSeq(l, 1, j - 1) \o SubSeq(r, i + 1, Len(r)),
                               <<CupBox(l[j], r[i])>>, <<j - 1>>)))
CupsD(l, r) == CupsFrom(l, r, 1, IdD(l \o r))
\* nested caps = the same layers in reverse order with caps instead of cups
CapsD(l, r) == LET c == CupsD(l, r) n == Len(c.boxes) IN
  Diag(<<>>, l \o r, [k \in 1..n |-> CapBox(c.boxes[n + 1 - k].dom[1], c.boxes[n + 1 - k].dom[2])],
       [k \in 1..n |-> c.offs[n + 1 - k]])

ApplyBox(F, b) ==
  CASE b.kind = 1 -> SwapDiag(ApplyTy(F, <<b.dom[1]>>), ApplyTy(F, <<b.dom[2]>>))
    [] b.kind = 2 -> CupsD(ApplyTy(F, <<b.dom[1]>>), ApplyTy(F, <<b.dom[2]>>))
    [] b.kind = 3 -> CapsD(ApplyTy(F, <<b.cod[1]>>), ApplyTy(F, <<b.cod[2]>>))
    [] OTHER -> IF b.dg = 1 THEN Dagger(F.ar[b.id]) ELSE F.ar[b.id]
RECURSIVE ApplyFrom(_, _, _, _)
ApplyFrom(F, dd, k, acc) ==
  IF k > Len(dd.boxes) THEN acc
  ELSE LET sc == Scans(dd)[k] b == dd.boxes[k] o == dd.offs[k]
           lay == Tensor(Tensor(IdD(ApplyTy(F, Slice(sc, 0, o))), ApplyBox(F, b)),
                         IdD(ApplyTy(F, Slice(sc, o + Len(b.dom), Len(sc))))) IN
       ApplyFrom(F, dd, k + 1, Then(acc, lay))
Apply(F, dd) == ApplyFrom(F, dd, 1, IdD(ApplyTy(F, dd.dom)))
HasSwap(dd) == \E k \in 1..Len(dd.boxes) : dd.boxes[k].kind = 1

(***************************************************************************)
(* Exhaustive model: configurations are part of the initial state.         *)
(* Source category: atoms x = 1, y = 2; boxes 1..5 (as in Sig below),      *)
(* swaps, cups and caps.  Target atoms a = 3, b = 4.                       *)
(***************************************************************************)
CONSTANTS MaxBoxes, MaxWidth
VARIABLES cfg, d
vars == <<cfg, d>>
A0 == <<3, 0>>
B0 == <<4, 0>>
ObMenu == << <<>>, <<A0>>, <<A0, B0>>, <<B0, A0>>, <<<<4, -1>>, <<3, 1>>>> >>
X(z) == <<1, z>>
Y == <<2, 0>>
PB(id, dm, cd) == [id |-> id, kind |-> 0, dom |-> dm, cod |-> cd, dg |-> 0]
Sig == << PB(1, <<X(0)>>, <<Y>>), PB(2, <<Y>>, <<X(0), X(0)>>), PB(3, <<X(0), Y>>, <<X(0)>>),
          PB(4, <<>>, <<X(0)>>), PB(5, <<X(1)>>, <<X(1)>>) >>
\* image of box id under (ob, mode): mode 1 one box, 2 a two-box composite through a
\* middle wire, 3 a scalar next to one box
ObOf(c) == <<ObMenu[c.ox], ObMenu[c.oy]>>
Img(c, id) ==
  LET F0 == [ob |-> ObOf(c), ar |-> <<>>]
      dm == ApplyTy(F0, Sig[id].dom) cd == ApplyTy(F0, Sig[id].cod) IN
  CASE c.mode = 1 -> OfBox(PB(100 + id, dm, cd))
    [] c.mode = 2 -> Then(OfBox(PB(100 + id, dm, <<A0>>)), OfBox(PB(200 + id, <<A0>>, cd)))
    [] c.mode = 3 -> Then(Tensor(OfBox(PB(300, <<>>, <<>>)), IdD(dm)), OfBox(PB(100 + id, dm, cd)))
FOf(c) == [ob |-> ObOf(c), ar |-> [id \in 1..Len(Sig) |-> Img(c, id)]]
Structural ==
     { SwapBox(p[1], p[2]) : p \in { <<X(0), Y>>, <<Y, X(0)>>, <<X(0), X(0)>>, <<X(1), X(0)>> } }
\cup { CupBox(p[1], p[2]) : p \in { <<X(0), X(1)>>, <<X(-1), X(0)>>, <<X(1), X(0)>> } }
\cup { CapBox(p[1], p[2]) : p \in { <<X(1), X(0)>>, <<X(0), X(-1)>>, <<X(0), X(1)>> } }
Shapes == { Sig[k] : k \in 1..Len(Sig) } \cup { DagBox(Sig[k]) : k \in 1..Len(Sig) } \cup Structural
Doms == { <<>>, <<X(0)>>, <<Y>>, <<X(0), Y>>, <<X(1)>> }
Configs == [ox : 1..Len(ObMenu), oy : 1..Len(ObMenu), mode : 1..3]
Init == cfg \in Configs /\ d \in { IdD(t) : t \in Doms }
Build == /\ Len(d.boxes) < MaxBoxes
         /\ \E b \in Shapes, o \in 0..Len(d.cod) :
              /\ Fits(d.cod, b, o) /\ Len(After(d.cod, b, o)) <= MaxWidth
              /\ d' = Then(d, Diag(d.cod, After(d.cod, b, o), <<b>>, <<o>>))
         /\ UNCHANGED cfg
Spec == Init /\ [][Build]_vars

F == FOf(cfg)
InvTyped == LET r == Apply(F, d) IN
            WellTyped(r) /\ r.dom = ApplyTy(F, d.dom) /\ r.cod = ApplyTy(F, d.cod)
InvFunctorial ==
  /\ \A k \in 0..Len(d.boxes) : Then(Apply(F, PySlice(d, None, k)), Apply(F, PySlice(d, k, None))) = Apply(F, d)
  /\ Apply(F, Tensor(d, d)) = Tensor(Apply(F, d), Apply(F, d))
  /\ Apply(F, IdD(d.cod)) = IdD(ApplyTy(F, d.cod))
  /\ ApplyTy(F, TyR(d.cod)) = TyR(ApplyTy(F, d.cod)) /\ ApplyTy(F, TyL(d.cod)) = TyL(ApplyTy(F, d.cod))
\* dagger: holds for every diagram without swaps; for swaps between two multi-wire images
\* the two sides decompose the same permutation differently (see DESIGN, C04 finding)
InvDagger == ~HasSwap(d) => Apply(F, Dagger(d)) = Dagger(Apply(F, d))
InvDaggerAll == Apply(F, Dagger(d)) = Dagger(Apply(F, d))
=============================================================================
