----------------------------- MODULE Trace_PermB -----------------------------
(***************************************************************************)
(* Behaviour-style trace validation for C10 at algorithm level: the        *)
(* offsets of the swap boxes of ONE diagram returned by the real           *)
(* permutation(perm) are the event log; each logged event must be the      *)
(* AdjSwap step the machine of Perm.tla takes next, the loop iterations    *)
(* (Iterate) are silent steps taken between events.  Acceptance means the  *)
(* library's decomposition is the one transcribed in Perm.tla; a rejection *)
(* is reported as MODEL-DRIFT only (the property-level judge is J10).      *)
(***************************************************************************)
EXTENDS Perm, Json, IOUtils, TLCExt
Tr == ndJsonDeserialize(IOEnv.TRACE_FILE)[1]
VARIABLE l
TraceInit == /\ Init /\ req = [kind |-> "perm", nl |-> 0, nr |-> 0, p |-> Tr.perm] /\ l = 1
TraceEvent == /\ l <= Len(Tr.offs) /\ todo # <<>> /\ Head(todo) = Tr.offs[l] /\ AdjSwap /\ l' = l + 1
TraceSilent == Iterate /\ UNCHANGED l
TraceNext == TraceEvent \/ TraceSilent
TraceSpec == TraceInit /\ [][TraceNext]_<<vars, l>>
\* every event consumed and the machine finished: some reachable state has l = Len + 1 and Finished
TraceAccepted == TLCGet("stats").diameter >= Len(Tr.offs) + Len(Tr.perm) + 1
InvNoExtraEvents == (Finished /\ l = Len(Tr.offs) + 1) => PermOK(Tr.perm, arr)
=============================================================================
