----------------------------- MODULE Trace_Grammar -----------------------------
(***************************************************************************)
(* Trace validation for C18.  One line, by kind:                           *)
(*  "parse"    : words (codomain types), wids (word name ids), target,     *)
(*               res (projected rigid diagram), exc                        *)
(*  "generate" : start, prods (boxes), maxdepth, res, exc                  *)
(*  "rigid"    : bdom, bcod (biclosed types of a biclosed diagram or rule  *)
(*               box), img (its projected image under biclosed2rigid), exc *)
(***************************************************************************)
EXTENDS Grammar, Json, IOUtils
J18(t) ==
  IF t.kind = "parse" THEN
     (IF t.exc = "NotImplementedError" THEN "ok"          \* no diagram returned: nothing is claimed
      ELSE IF t.exc # "" THEN "parser-raised"
      ELSE ParseClause(t.words, t.wids, t.target, t.res))
  ELSE IF t.kind = "generate" THEN
     (IF t.exc # "" THEN "generator-raised" ELSE DerivationClause(t.start, t.prods, t.maxdepth, t.res))
  ELSE IF t.kind = "rigid" THEN
     (IF t.exc # "" THEN "translation-raised" ELSE TypePreservingClause(t.bdom, t.bcod, t.img))
  ELSE "unknown-kind"
\* algorithm level: eager_parse returns exactly the leftmost-first reduction
JDrift(t) ==
  IF t.kind # "parse" THEN "ok"
  ELSE LET r == Eager(Concat(t.words), t.target, <<>>) IN
       IF r.e # t.exc THEN "drift-exception"
       ELSE IF r.e = "" /\ SubSeq(t.res.offs, Len(t.words) + 1, Len(t.res.offs)) # r.offs THEN "drift-cups" ELSE "ok"
Verdicts == LET TR == ndJsonDeserialize(IOEnv.TRACE_FILE) IN
  [l \in 1..Len(TR) |-> [v |-> <<IF IOEnv.JUDGE = "JDrift" THEN JDrift(TR[l]) ELSE J18(TR[l])>>]]
ASSUME ndJsonSerialize(IOEnv.OUT, Verdicts)
VARIABLE zz
TVInit == zz = 0
TVNext == UNCHANGED zz
=============================================================================
