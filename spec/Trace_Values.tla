----------------------------- MODULE Trace_Values -----------------------------
EXTENDS Values, Json, IOUtils
Verdicts == LET TR == ndJsonDeserialize(IOEnv.TRACE_FILE) IN [l \in 1..Len(TR) |-> [v |-> <<JPair(TR[l])>>]]
ASSUME ndJsonSerialize(IOEnv.OUT, Verdicts)
TVInit == p = <<0, 0>>
TVNext == UNCHANGED p
=============================================================================
