------------------------------- MODULE Grammar -------------------------------
(***************************************************************************)
(* Grammar front-ends (C18).                                               *)
(*  - Pregroup parsing: a machine whose state is the scan of open wires    *)
(*    (atoms <<name, winding>>) and whose only step is Contract(i): a cup  *)
(*    on the adjacent pair (t, t.r) at offset i.  A parse is: the words in *)
(*    order, tensored left to right, followed only by such cups.           *)
(*  - Context-free derivations: a diagram from the empty type to the start *)
(*    symbol using only the given productions.                             *)
(*  - Biclosed types: a type is a sequence of items; an item is            *)
(*    [k |-> "atom", n], [k |-> "over", l, r] (l << r) or                  *)
(*    [k |-> "under", l, r] (l >> r) with l, r types.  ToRigid is the      *)
(*    object map of the translation to rigid types:                        *)
(*       F(l << r) = F(l) @ F(r).l      F(l >> r) = F(l).r @ F(r).         *)
(***************************************************************************)
EXTENDS Diagrams

AdjR(a) == <<a[1], a[2] + 1>>
RevT(t) == [k \in 1..Len(t) |-> t[Len(t) + 1 - k]]
TyR(t) == [k \in 1..Len(t) |-> <<RevT(t)[k][1], RevT(t)[k][2] + 1>>]
TyL(t) == [k \in 1..Len(t) |-> <<RevT(t)[k][1], RevT(t)[k][2] - 1>>]

(**************************** pregroup parsing ******************************)
Contractible(sc, i) == i + 2 <= Len(sc) /\ sc[i + 2] = AdjR(sc[i + 1])          \* 0-based offset i
ContractRes(sc, i) == SubSeq(sc, 1, i) \o SubSeq(sc, i + 3, Len(sc))
RECURSIVE Concat(_)
Concat(ts) == IF ts = <<>> THEN <<>> ELSE Head(ts) \o Concat(Tail(ts))
\* offsets of the words when tensored left to right
RECURSIVE WordOffs(_, _)
WordOffs(ts, acc) == IF ts = <<>> THEN <<>> ELSE <<acc>> \o WordOffs(Tail(ts), acc + Len(Head(ts)))
\* replay the boxes after the words as Contract events: "" or the failing clause
RECURSIVE RunCups(_, _, _, _)
RunCups(sc, bs, os, k) ==
  IF k > Len(bs) THEN [e |-> "", s |-> sc]
  ELSE IF bs[k].kind # 2 THEN [e |-> "box-after-the-words-is-not-a-cup", s |-> sc]
  ELSE IF ~Contractible(sc, os[k]) THEN [e |-> "cup-not-between-adjacent-adjoint-types", s |-> sc]
  ELSE IF bs[k].dom # <<sc[os[k] + 1], sc[os[k] + 2]>> THEN [e |-> "cup-type-is-not-the-wires-at-its-offset", s |-> sc]
  ELSE RunCups(ContractRes(sc, os[k]), bs, os, k + 1)
\* words: sequence of codomain types; res: observed diagram with box names in field id
ParseClause(words, wids, target, res) ==
  LET n == Len(words) IN
  IF res.dom # <<>> THEN "domain-not-empty"
  ELSE IF res.cod # target THEN "codomain-is-not-the-target"
  ELSE IF Len(res.boxes) < n THEN "words-missing"
  ELSE IF \E k \in 1..n : res.boxes[k].id # wids[k] \/ res.boxes[k].cod # words[k] \/ res.boxes[k].dom # <<>>
       THEN "words-not-in-the-given-order"
  ELSE IF SubSeq(res.offs, 1, n) # WordOffs(words, 0) THEN "words-not-tensored-left-to-right"
  ELSE LET r == RunCups(Concat(words), SubSeq(res.boxes, n + 1, Len(res.boxes)),
                        SubSeq(res.offs, n + 1, Len(res.offs)), 1) IN
       IF r.e # "" THEN r.e ELSE IF r.s # target THEN "cups-do-not-reduce-to-the-target" ELSE "ok"
\* algorithm level: eager_parse contracts the leftmost adjacent pair until the target is reached
Leftmost(sc) == CHOOSE i \in 0..(Len(sc) - 2) : Contractible(sc, i) /\ \A j \in 0..(i - 1) : ~Contractible(sc, j)
HasPair(sc) == \E i \in 0..(Len(sc) - 2) : Contractible(sc, i)
RECURSIVE Eager(_, _, _)
\* [e |-> "" | "NotImplementedError", offs |-> offsets of the cups]
Eager(sc, target, acc) ==
  IF ~HasPair(sc) THEN (IF sc = target THEN [e |-> "", offs |-> acc] ELSE [e |-> "NotImplementedError", offs |-> acc])
  ELSE LET i == Leftmost(sc) sc2 == ContractRes(sc, i) IN
       IF sc2 = target THEN [e |-> "", offs |-> Append(acc, i)] ELSE Eager(sc2, target, Append(acc, i))

(************************ context-free derivations **************************)
DerivationClause(start, prods, maxdepth, res) ==
  IF res.dom # <<>> THEN "domain-not-empty"
  ELSE IF res.cod # start THEN "codomain-is-not-the-start-symbol"
  ELSE IF ~WellTyped(Diag(res.dom, res.cod, res.boxes, res.offs)) THEN "derivation-ill-typed"
  ELSE IF \E k \in 1..Len(res.boxes) : ~(\E p \in 1..Len(prods) :
            prods[p].id = res.boxes[k].id /\ prods[p].dom = res.boxes[k].dom /\ prods[p].cod = res.boxes[k].cod)
       THEN "box-is-not-a-production"
  ELSE IF Len(res.boxes) > maxdepth THEN "deeper-than-max-depth"
  ELSE "ok"

(****************************** biclosed types ******************************)
RECURSIVE ToRigid(_), ItemToRigid(_)
ItemToRigid(it) ==
  IF it.k = "atom" THEN << <<it.n, 0>> >>
  ELSE IF it.k = "over" THEN ToRigid(it.l) \o TyL(ToRigid(it.r))
  ELSE TyR(ToRigid(it.l)) \o ToRigid(it.r)
ToRigid(t) == IF t = <<>> THEN <<>> ELSE ItemToRigid(t[1]) \o ToRigid(Tail(t))
\* image : observed rigid diagram (with layer view); bdom, bcod : the biclosed types of the source
TypePreservingClause(bdom, bcod, img) ==
  IF FirstFailing(img) # "ok" THEN FirstFailing(img)
  ELSE IF img.dom # ToRigid(bdom) THEN "image-domain-is-not-the-image-of-the-domain"
  ELSE IF img.cod # ToRigid(bcod) THEN "image-codomain-is-not-the-image-of-the-codomain"
  ELSE "ok"
=============================================================================
