------------------------------- MODULE Trace_Sum -------------------------------
(***************************************************************************)
(* Trace validation of formal sums (C02).  One line = one operation on     *)
(* sums made on the real library:                                          *)
(*   op in {"then", "tensor", "dagger", "add"}, a, b : sums [dom, cod,     *)
(*   terms] (a diagram operand is recorded as its one-term sum with        *)
(*   lifted = 1), res : the returned sum, exc, and for law instances       *)
(*   eq = 1/0: the value of python == between the two sides of the law     *)
(*   (2 = not a law instance).                                             *)
(***************************************************************************)
EXTENDS Sums, Json, IOUtils
AsD(o) == Diag(o.dom, o.cod, o.boxes, o.offs)
AsS(o) == SumOf(o.dom, o.cod, [k \in 1..Len(o.terms) |-> AsD(o.terms[k])])
JSum(t) ==
  LET a == AsS(t.a) b == AsS(t.b) IN
  IF t.op = "law" THEN (IF t.eq = 1 THEN "ok" ELSE "law-does-not-hold-as-equality")
  ELSE LET refuse == CASE t.op = "then" -> a.cod # b.dom
                       [] t.op = "add" -> a.dom # b.dom \/ a.cod # b.cod
                       [] OTHER -> FALSE IN
  \* an ill-typed request must be refused or, vacuously (an empty operand: no term is ever
  \* composed), may return a well-formed sum; it must never hand back ill-typed terms
  IF refuse THEN (IF t.exc # "" THEN "ok"
                  ELSE IF WellFormedSum(AsS(t.res)) /\ (Len(a.terms) = 0 \/ Len(b.terms) = 0) THEN "ok"
                  ELSE "ill-typed-request-not-refused")
  ELSE IF t.exc # "" THEN "well-typed-request-refused"
  ELSE LET exp == CASE t.op = "then" -> SumThen(a, b)
                    [] t.op = "tensor" -> SumTensor(a, b)
                    [] t.op = "dagger" -> SumDagger(a)
                    [] t.op = "add" -> SumAdd(a, b) IN
       IF ~WellFormedSum(AsS(t.res)) THEN "result-is-not-a-sum-of-parallel-well-typed-diagrams"
       ELSE IF AsS(t.res) # exp THEN "value-differs"
       ELSE "ok"
Verdicts == LET T == ndJsonDeserialize(IOEnv.TRACE_FILE) IN [l \in 1..Len(T) |-> [v |-> <<JSum(T[l])>>]]
ASSUME ndJsonSerialize(IOEnv.OUT, Verdicts)
VARIABLE z
TVInit == z = 0
TVNext == UNCHANGED z
=============================================================================
