--------------------------- MODULE Trace_Cartesian ---------------------------
(***************************************************************************)
(* Trace validation for C19.  A line is one of                             *)
(*  kind "call":  a diagram t.d (boxes by function id) called on inputs    *)
(*                t.xs; t.res the returned tuple, t.exc the exception;     *)
(*  kind "swap" / "copy" / "discard": Swap(l, r) / Copy(n) / Discard(n)    *)
(*                called on t.xs (t.l = l for swap);                       *)
(*  kind "square": both sides of a naturality square called on t.xs        *)
(*                (t.res, t.res2), t.d / t.d2 the two composite diagrams;  *)
(*                t.raw_eq = 1 iff python == holds between what the two    *)
(*                calls return (before any normalisation to tuples).       *)
(***************************************************************************)
EXTENDS Cartesian, Json, IOUtils
InputsV == {0}
\* arithmetic on the opaque value must raise; nothing else may
J19(t) ==
  IF t.kind \in {"call", "square"} /\ EvalD(t.d, t.xs) = <<ERR>>
  THEN (IF t.exc = "TypeError" THEN "ok" ELSE "arithmetic-on-the-opaque-value-did-not-raise")
  ELSE IF t.exc # "" THEN "call-raised"
  ELSE IF t.kind = "call" THEN (IF t.res = EvalD(t.d, t.xs) THEN "ok" ELSE "result-differs-from-box-by-box-evaluation")
  ELSE IF t.kind = "swap" THEN (IF t.res = SwapF(t.l, t.xs) THEN "ok" ELSE "swap-does-not-exchange-the-blocks")
  ELSE IF t.kind = "copy" THEN (IF t.res = CopyF(t.xs) THEN "ok" ELSE "copy-does-not-duplicate")
  ELSE IF t.kind = "discard" THEN (IF t.res = <<>> THEN "ok" ELSE "discard-does-not-delete")
  ELSE IF t.kind = "square" THEN
       (IF t.res # t.res2 \/ t.raw_eq # 1 THEN "naturality-square-does-not-commute"
        ELSE IF t.res # EvalD(t.d, t.xs) THEN "result-differs-from-box-by-box-evaluation" ELSE "ok")
  ELSE "unknown-kind"
Verdicts == LET T == ndJsonDeserialize(IOEnv.TRACE_FILE) IN [l \in 1..Len(T) |-> [v |-> <<J19(T[l])>>]]
ASSUME ndJsonSerialize(IOEnv.OUT, Verdicts)
TVInit == d = IdD(<<>>)
TVNext == UNCHANGED d
=============================================================================
