-------------------------------- MODULE Ring16 --------------------------------
(***************************************************************************)
(* Exact arithmetic in Z[w][1/sqrt2], w = e^{i pi/8} (w^8 = -1, w^16 = 1). *)
(* An element is <<c0, ..., c7, k>> meaning (sum_j c_j w^j) / sqrt2^k with  *)
(* integer c_j and k >= 0, kept in canonical form (k minimal), so that =    *)
(* decides equality.  sqrt2 = w^2 - w^6, i = w^4.                           *)
(* The ring contains every entry of H, S, T, X, Y, Z, CX, CZ, SWAP, of the  *)
(* rotations at phases that are multiples of 1/8 turn, of Z/X spiders at    *)
(* multiples of 1/16 turn, all kets/bras and all Born probabilities of      *)
(* such circuits.  TLC integers are 32-bit: Guard asserts a magnitude bound *)
(* so that an overflow is a machinery failure, never a wrong verdict.       *)
(***************************************************************************)
EXTENDS Naturals, Integers, Sequences, TLC
NC == 8
RZero == <<0, 0, 0, 0, 0, 0, 0, 0, 0>>
ROne  == <<1, 0, 0, 0, 0, 0, 0, 0, 0>>
IsZero(p) == \A j \in 1..NC : p[j] = 0
K(p) == p[NC + 1]
\* multiplication by w^m, m in 0..15 (coefficients only, k unchanged)
MulW(p, m) == [j \in 1..(NC + 1) |-> IF j = NC + 1 THEN p[NC + 1]
                 ELSE LET src == ((j - 1) - m) % 16 IN IF src < 8 THEN p[src + 1] ELSE 0 - p[src - 8 + 1]]
W(m) == MulW(ROne, m % 16)
RI == W(4)
Abs(v) == IF v < 0 THEN 0 - v ELSE v
Guard(p) == IF \A j \in 1..NC : Abs(p[j]) < 100000000 THEN p
            ELSE Assert(FALSE, <<"Ring16: coefficient magnitude out of range", p>>)
AddRaw(p, q) == [j \in 1..(NC + 1) |-> IF j = NC + 1 THEN p[NC + 1] ELSE p[j] + q[j]]
\* same value, k + 1
\* (multiplication of the numerator by sqrt2 = w^2 - w^6, written out)
S2(p) == <<p[3] - p[7], p[4] - p[8], p[1] + p[5], p[2] + p[6], p[3] + p[7], p[4] + p[8], p[5] - p[1], p[6] - p[2],
           p[NC + 1] + 1>>
RECURSIVE Lift(_, _)
Lift(p, k) == IF p[NC + 1] >= k THEN p ELSE Lift(S2(p), k)
AllEven(p) == \A j \in 1..NC : p[j] % 2 = 0
RECURSIVE Norm(_)
Norm(p) == IF IsZero(p) THEN RZero
           ELSE IF p[NC + 1] >= 1 /\ AllEven(S2(p))
                THEN LET q == S2(p) IN Norm([j \in 1..(NC + 1) |-> IF j = NC + 1 THEN p[NC + 1] - 1 ELSE q[j] \div 2])
           ELSE Guard(p)
Add(p, q) == IF IsZero(p) THEN q ELSE IF IsZero(q) THEN p ELSE
             LET k == IF p[NC + 1] > q[NC + 1] THEN p[NC + 1] ELSE q[NC + 1] IN Norm(AddRaw(Lift(p, k), Lift(q, k)))
Neg(p) == [j \in 1..(NC + 1) |-> IF j = NC + 1 THEN p[NC + 1] ELSE 0 - p[j]]
Sub(p, q) == Add(p, Neg(q))
\* coefficient j (0..7) of the product of the numerators: a + b = j counts +, a + b = j + 8 counts -
Cf(p, q, j) ==
  LET t(a) == IF p[a + 1] = 0 THEN 0 ELSE p[a + 1] * (IF j >= a THEN q[j - a + 1] ELSE 0 - q[j + 8 - a + 1]) IN
  t(0) + t(1) + t(2) + t(3) + t(4) + t(5) + t(6) + t(7)
Mul(p, q) == IF IsZero(p) \/ IsZero(q) THEN RZero ELSE
             Norm(<<Cf(p, q, 0), Cf(p, q, 1), Cf(p, q, 2), Cf(p, q, 3), Cf(p, q, 4), Cf(p, q, 5), Cf(p, q, 6),
                    Cf(p, q, 7), p[NC + 1] + q[NC + 1]>>)
\* complex conjugation: w^j -> w^(-j) = -w^(8-j)
Conj(p) == [j \in 1..(NC + 1) |-> IF j = NC + 1 THEN p[NC + 1]
              ELSE IF j = 1 THEN p[1] ELSE 0 - p[NC + 2 - j]]
FromInt(n) == <<n, 0, 0, 0, 0, 0, 0, 0, 0>>
InvS2 == <<1, 0, 0, 0, 0, 0, 0, 0, 1>>              \* 1 / sqrt2
Half(p) == IF IsZero(p) THEN RZero ELSE Norm([j \in 1..(NC + 1) |-> IF j = NC + 1 THEN p[NC + 1] + 2 ELSE p[j]])
DivS2(p, n) == IF IsZero(p) THEN RZero ELSE Norm([j \in 1..(NC + 1) |-> IF j = NC + 1 THEN p[NC + 1] + n ELSE p[j]])
\* cos(pi m / 8) and sin(pi m / 8)
Cos8(m) == Half(Add(W(m % 16), W((16 - (m % 16)) % 16)))
Sin8(m) == Mul(Neg(RI), Half(Sub(W(m % 16), W((16 - (m % 16)) % 16))))
\* |z|^2 (a real element)
Abs2(p) == Mul(p, Conj(p))
\* Gaussian numbers (re + i im) / sqrt2^s
Gauss(re, im, s) == Add(DivS2(FromInt(re), s), Mul(RI, DivS2(FromInt(im), s)))
=============================================================================
