--------------------------------- MODULE QMat ---------------------------------
(* Mat instantiated at the ring Z[w][1/sqrt2] of Ring16 (exact quantum amplitudes). *)
EXTENDS Ring16, FiniteSets
INSTANCE Mat WITH RAdd <- Add, RMul <- Mul, RConj <- Conj, RZero <- RZero, ROne <- ROne
Q(n) == [k \in 1..n |-> 2]                        \* n qubit wires
IsZeroT(A) == \A k \in 1..Len(A.a) : IsZero(A.a[k])
\* A = lambda B for some lambda # 0 (exact): zero-ness agrees and all 2x2 cross products vanish
PropTo(A, B) == /\ A.dom = B.dom /\ A.cod = B.cod
                /\ IsZeroT(A) <=> IsZeroT(B)
                /\ \A x, y \in 1..Len(A.a) : Mul(A.a[x], B.a[y]) = Mul(A.a[y], B.a[x])
=============================================================================
