------------------------------- MODULE Trace_ZX -------------------------------
(***************************************************************************)
(* Trace validation for C16.  kind "c2zx": a pure circuit t.c and the ZX   *)
(* diagram t.zx the real circuit2zx returned for it: they must have the    *)
(* same numbers of input and output wires and t.zx must denote Sem(t.c) up *)
(* to one non-zero scalar (exactly, in Z[w][1/sqrt2]).  kind "zxdag": a ZX *)
(* diagram t.zx and the projection t.dag of its real .dagger(): t.dag must *)
(* denote the conjugate transpose of what t.zx denotes.                    *)
(***************************************************************************)
EXTENDS ZX, Json, IOUtils
PhasesQ == {1}
J16(t) ==
  IF t.exc # "" THEN "translation-raised"
  ELSE IF t.kind = "c2zx" THEN
       IF t.zx.dom # t.c.dom \/ ZXCod(t.zx) # Cod(t.c) THEN "number-of-wires-differs"
       ELSE IF PropTo(ZXSem(t.zx), Sem(t.c)) THEN "ok" ELSE "zx-diagram-not-proportional-to-the-circuit"
  ELSE IF t.dag.dom # ZXCod(t.zx) \/ ZXCod(t.dag) # t.zx.dom THEN "dagger-has-wrong-type"
  ELSE IF ZXSem(t.dag) = ConjT(ZXSem(t.zx)) THEN "ok" ELSE "dagger-does-not-denote-the-conjugate-transpose"
JDrift(t) == IF t.kind = "c2zx" /\ t.exc = "" /\ Len(t.c.layers) = 1 /\ t.c.layers[1].g.k \in SupportedKinds
                /\ t.c.layers[1].g.dg = 0 /\ t.zx # Gate2ZX(t.c.layers[1].g)
             THEN "drift-table" ELSE "ok"
Verdicts == LET TR == ndJsonDeserialize(IOEnv.TRACE_FILE) IN
  [l \in 1..Len(TR) |-> [v |-> <<IF IOEnv.JUDGE = "JDrift" THEN JDrift(TR[l]) ELSE J16(TR[l])>>]]
ASSUME ndJsonSerialize(IOEnv.OUT, Verdicts)
TVInit == ZInit
TVNext == UNCHANGED <<c, zd>>
=============================================================================
