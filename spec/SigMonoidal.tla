---------------------------- MODULE SigMonoidal ----------------------------
(* Signature of the free monoidal category used by the exhaustive models:  *)
(* two atoms x = <<1,0>>, y = <<2,0>> and seven box shapes hitting every   *)
(* branch of the offset arithmetic (empty domain, empty codomain, both,    *)
(* arity up and down, wide).                                               *)
EXTENDS Naturals, Sequences
x == <<1, 0>>
y == <<2, 0>>
B(id, dm, cd) == [id |-> id, kind |-> 0, dom |-> dm, cod |-> cd, dg |-> 0]
SigM == << B(1, <<x>>, <<y>>),          \* f
           B(2, <<y>>, <<x, x>>),       \* g  (split)
           B(3, <<x, y>>, <<x>>),       \* m  (merge)
           B(4, <<>>, <<x>>),           \* st (state)
           B(5, <<y>>, <<>>),           \* ef (effect)
           B(6, <<>>, <<>>),            \* sc (scalar)
           B(7, <<x, x>>, <<y, y>>) >>  \* w  (wide)
DomsM == { <<>>, <<x>>, <<y>>, <<x, y>>, <<x, x>> }
=============================================================================
