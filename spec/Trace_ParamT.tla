----------------------------- MODULE Trace_ParamT -----------------------------
(***************************************************************************)
(* C14 for tensor diagrams with symbolic boxes.  One line: a composite     *)
(* f >> g of two 2x2 tensor boxes whose entries are affine forms (value    *)
(* c0/8 + cx x + cy y), a chain of substitution steps (each a sequence of  *)
(* pairs applied in order), the projected entries of the real result, the  *)
(* free symbols reported before and after.  With t.bubble = 1 the second   *)
(* box sits inside a bubble that squares entrywise: its entries are        *)
(* parameters of the diagram like any other.  t.bubble = 2: the second box *)
(* is the adjoint of the first.  dg0 / dg1: the dagger flags of the boxes  *)
(* before and after the chain (substitution must not change them).  The    *)
(* harness builds the same two arrays as tensor boxes or as classical      *)
(* gates on one bit.                                                       *)
(***************************************************************************)
EXTENDS Param, Json, IOUtils
PhasesQ == {1}
SubsEnts(es, ps) == [k \in 1..Len(es) |-> SubsForm(es[k], ps)]
RECURSIVE ChainEnts(_, _, _)
ChainEnts(es, chain, k) == IF k > Len(chain) THEN es ELSE ChainEnts(SubsEnts(es, chain[k]), chain, k + 1)
FSEnts(es) == UNION { FS(es[k]) : k \in 1..Len(es) }
M22(es) == [dom |-> <<2>>, cod |-> <<2>>, a |-> [k \in 1..4 |-> DivS2(FromInt(es[k].c0), 6)]]
SetOfS(s) == { s[k] : k \in 1..Len(s) }
OutT(t) ==
  LET wf == ChainEnts(t.f, t.chain, 1) wg == ChainEnts(t.g, t.chain, 1)
      closed == FSEnts(wf) \cup (IF t.bubble = 2 THEN {} ELSE FSEnts(wg)) = {}
      clause == IF t.exc # "" THEN "substitution-raised"
                ELSE IF t.rf # wf \/ (t.bubble # 2 /\ t.rg # wg) THEN "substituted-entries-differ"
                ELSE IF t.dg1 # t.dg0 THEN "substitution-changed-a-dagger-flag"
                ELSE IF SetOfS(t.fs0) # FSEnts(t.f) \cup (IF t.bubble = 2 THEN {} ELSE FSEnts(t.g)) THEN "free-symbols-of-the-diagram-wrong"
                ELSE IF SetOfS(t.fs1) # FSEnts(wf) \cup (IF t.bubble = 2 THEN {} ELSE FSEnts(wg)) THEN "free-symbols-after-substitution-wrong"
                ELSE "ok" IN
  [v |-> <<clause>>, closed |-> closed, e |-> IF closed THEN MatThen(M22(wf), IF t.bubble = 1 THEN MapT(M22(wg), LAMBDA z : Mul(z, z))
                                                           ELSE IF t.bubble = 2 THEN ConjT(M22(wf)) ELSE M22(wg)).a ELSE <<>>]
Verdicts == LET TR == ndJsonDeserialize(IOEnv.TRACE_FILE) IN [l \in 1..Len(TR) |-> OutT(TR[l])]
ASSUME ndJsonSerialize(IOEnv.OUT, Verdicts)
TVInit == PInit
TVNext == UNCHANGED <<c, mc, pc, hist>>
=============================================================================
