-------------------------------- MODULE Layout --------------------------------
(***************************************************************************)
(* The drawing layout (C20).  A diagram is abstracted to its shape:        *)
(* dm input wires and boxes [a, c, off] (arity in, arity out, offset).     *)
(* Node ids: <<"in", i, 0>>, <<"out", i, 0>>, <<"box", 0, depth>>,         *)
(* <<"dom", i, depth>>, <<"cod", i, depth>>.  A layout is a sequence of    *)
(* [n |-> node id, x, y]; x is scaled by K = 2^(2*MaxBoxes+1) so that all  *)
(* coordinates the algorithm can produce are integers (every coordinate is *)
(* an average of two existing ones, or an existing one +- a half-integer), *)
(* y is scaled by 4.                                                       *)
(*                                                                         *)
(* Property level: NodesOK, EdgesOK, OrderOK, VerticalOK, DownOK,          *)
(* BoxBetweenOK on a final layout.  Algorithm level: make_space / add_box  *)
(* of drawing.diagram2nx transcribed (MakeSpace, AddBox).                  *)
(***************************************************************************)
EXTENDS Naturals, Integers, Sequences, FiniteSets, TLC

Max2(a, b) == IF a > b THEN a ELSE b
NodeIds(p) == { p[k].n : k \in 1..Len(p) }
At(p, n) == p[CHOOSE k \in 1..Len(p) : p[k].n = n]
Xof(p, n) == At(p, n).x
Yof(p, n) == At(p, n).y

(***************************************************************************)
(* The wiring of a shape, computed independently of any layout: the scan   *)
(* of open wires (as node ids) after each box.                             *)
(***************************************************************************)
InScan(dm) == [i \in 1..dm |-> <<"in", i - 1, 0>>]
RECURSIVE Levels(_, _, _, _)
Levels(bs, sc, k, acc) ==
  IF k > Len(bs) THEN acc ELSE
  LET b == bs[k]
      sc2 == SubSeq(sc, 1, b.off) \o [i \in 1..b.c |-> <<"cod", i - 1, k - 1>>]
             \o SubSeq(sc, b.off + b.a + 1, Len(sc))
  IN Levels(bs, sc2, k + 1, Append(acc, sc2))
AllLevels(dm, bs) == Levels(bs, InScan(dm), 1, <<InScan(dm)>>)      \* [k+1] = scan after k boxes
FinalScan(dm, bs) == AllLevels(dm, bs)[Len(bs) + 1]

ExpectedNodes(dm, bs) ==
  { <<"in", i - 1, 0>> : i \in 1..dm }
  \cup { <<"out", i - 1, 0>> : i \in 1..Len(FinalScan(dm, bs)) }
  \cup { <<"box", 0, k - 1>> : k \in 1..Len(bs) }
  \cup UNION { { <<"dom", i - 1, k - 1>> : i \in 1..bs[k].a } : k \in 1..Len(bs) }
  \cup UNION { { <<"cod", i - 1, k - 1>> : i \in 1..bs[k].c } : k \in 1..Len(bs) }
ExpectedEdges(dm, bs) ==
  LET L == AllLevels(dm, bs) IN
  UNION { { <<L[k][bs[k].off + i], <<"dom", i - 1, k - 1>>>> : i \in 1..bs[k].a } : k \in 1..Len(bs) }
  \cup UNION { { << <<"dom", i - 1, k - 1>>, <<"box", 0, k - 1>> >> : i \in 1..bs[k].a } : k \in 1..Len(bs) }
  \cup UNION { { << <<"box", 0, k - 1>>, <<"cod", i - 1, k - 1>> >> : i \in 1..bs[k].c } : k \in 1..Len(bs) }
  \cup { << FinalScan(dm, bs)[i], <<"out", i - 1, 0>> >> : i \in 1..Len(FinalScan(dm, bs)) }

NodesOK(dm, bs, p) == /\ NodeIds(p) = ExpectedNodes(dm, bs)
                      /\ Len(p) = Cardinality(ExpectedNodes(dm, bs))          \* one node each
StrictInc(s) == \A i \in 1..(Len(s) - 1) : s[i] < s[i + 1]
\* at every height the open wires appear in strictly increasing horizontal order
OrderOK(dm, bs, p) == \A l \in 1..(Len(bs) + 1) :
   LET sc == AllLevels(dm, bs)[l] IN StrictInc([i \in 1..Len(sc) |-> Xof(p, sc[i])])
\* wires between boxes (and to the outputs) are vertical
VerticalOK(dm, bs, p) ==
  /\ \A k \in 1..Len(bs) : \A i \in 1..bs[k].a :
        Xof(p, AllLevels(dm, bs)[k][bs[k].off + i]) = Xof(p, <<"dom", i - 1, k - 1>>)
  /\ \A i \in 1..Len(FinalScan(dm, bs)) : Xof(p, FinalScan(dm, bs)[i]) = Xof(p, <<"out", i - 1, 0>>)
\* every edge points downwards
DownOK(dm, bs, p) == \A e \in ExpectedEdges(dm, bs) : Yof(p, e[1]) > Yof(p, e[2])
\* every box sits strictly between its left and right neighbouring wires
BoxBetweenOK(dm, bs, p) == \A k \in 1..Len(bs) :
  LET b == bs[k] sc == AllLevels(dm, bs)[k + 1] xb == Xof(p, <<"box", 0, k - 1>>) IN
  /\ (b.off > 0 => Xof(p, sc[b.off]) < xb)
  /\ (b.off + b.c < Len(sc) => xb < Xof(p, sc[b.off + b.c + 1]))

(***************************************************************************)
(* Algorithm level: make_space and add_box.                                *)
(***************************************************************************)
CONSTANTS MaxBoxes, MaxWidth, MaxAr
K == 2 ^ (2 * MaxBoxes + 1)
Shift(p, pred(_), dlt) == [k \in 1..Len(p) |-> IF pred(p[k].x) THEN [p[k] EXCEPT !.x = p[k].x + dlt] ELSE p[k]]
MakeSpace(p, sc, a, c, off) ==
  IF Len(sc) = 0 THEN [x |-> 0, p |-> p] ELSE
  LET hw == (Max2(c - 1, 0) * K) \div 2 + K
      xp == IF a = 0 THEN
               IF off = 0 THEN Xof(p, sc[1]) - hw
               ELSE IF off = Len(sc) THEN Xof(p, sc[Len(sc)]) + hw
               ELSE (Xof(p, sc[off]) + Xof(p, sc[off + 1])) \div 2
            ELSE (Xof(p, sc[off + 1]) + Xof(p, sc[off + a])) \div 2
      p1 == IF off > 0 /\ Xof(p, sc[off]) > xp - hw
            THEN LET limit == Xof(p, sc[off]) pad == limit - xp + hw IN Shift(p, LAMBDA v : v <= limit, 0 - pad)
            ELSE p
      p2 == IF off + a < Len(sc) /\ Xof(p1, sc[off + a + 1]) < xp + hw
            THEN LET limit == Xof(p1, sc[off + a + 1]) pad == xp + hw - limit IN Shift(p1, LAMBDA v : v >= limit, pad)
            ELSE p1
  IN [x |-> xp, p |-> p2]
\* y (scaled by 4) is relative to the bottom: the code uses len(diagram) - depth - .5 etc.;
\* the machine builds top-down, so it stores y = -(4*depth + r) and the final layout adds 4*n.
AddBox(p, sc, a, c, off, depth, xp) ==
  LET doms == [i \in 1..a |-> [n |-> <<"dom", i - 1, depth>>, x |-> Xof(p, sc[off + i]), y |-> 0 - 4 * depth - 1]]
      cods == [i \in 1..c |-> [n |-> <<"cod", i - 1, depth>>,
                               x |-> IF a = c THEN Xof(p, sc[off + i])
                                     ELSE xp - (Max2(c - 1, 0) * K) \div 2 + (i - 1) * K,
                               y |-> 0 - 4 * depth - 3]]
  IN [p |-> p \o <<[n |-> <<"box", 0, depth>>, x |-> xp, y |-> 0 - 4 * depth - 2]>> \o doms \o cods,
      sc |-> SubSeq(sc, 1, off) \o [i \in 1..c |-> <<"cod", i - 1, depth>>] \o SubSeq(sc, off + a + 1, Len(sc))]
\* the complete layout of a shape, as diagram2nx computes it (outputs at y = 0)
RECURSIVE LayoutFrom(_, _, _, _)
LayoutFrom(bs, sc, p, k) ==
  IF k > Len(bs) THEN [p |-> p, sc |-> sc] ELSE
  LET b == bs[k] ms == MakeSpace(p, sc, b.a, b.c, b.off)
      ab == AddBox(ms.p, sc, b.a, b.c, b.off, k - 1, ms.x)
  IN LayoutFrom(bs, ab.sc, ab.p, k + 1)
LayoutAlg(dm, bs) ==
  LET n  == Len(bs)
      r  == LayoutFrom(bs, InScan(dm), [i \in 1..dm |-> [n |-> <<"in", i - 1, 0>>, x |-> (i - 1) * K, y |-> 0]], 1)
      up == [k \in 1..Len(r.p) |-> [r.p[k] EXCEPT !.y = IF r.p[k].n[1] = "in" THEN 4 * Max2(n, 1) ELSE r.p[k].y + 4 * n]]
  IN up \o [i \in 1..Len(r.sc) |-> [n |-> <<"out", i - 1, 0>>, x |-> Xof(r.p, r.sc[i]), y |-> 0]]

VARIABLES dm, bs
vars == <<dm, bs>>
Width(dmm, bss) == Len(FinalScan(dmm, bss))
Init == dm \in 0..MaxWidth /\ bs = <<>>
Build == /\ Len(bs) < MaxBoxes
         /\ \E a \in 0..MaxAr, c \in 0..MaxAr, off \in 0..Width(dm, bs) :
              /\ off + a <= Width(dm, bs) /\ Width(dm, bs) - a + c <= MaxWidth
              /\ bs' = Append(bs, [a |-> a, c |-> c, off |-> off])
         /\ dm' = dm
Spec == Init /\ [][Build]_vars
Lay == LayoutAlg(dm, bs)
InvNodes == NodesOK(dm, bs, Lay)
InvOrder == OrderOK(dm, bs, Lay)
InvVertical == VerticalOK(dm, bs, Lay)
InvDown == DownOK(dm, bs, Lay)
InvBoxBetween == BoxBetweenOK(dm, bs, Lay)
=============================================================================
