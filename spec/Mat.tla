--------------------------------- MODULE Mat ---------------------------------
(***************************************************************************)
(* Tensors as matrices over an arbitrary commutative ring with conjugation.*)
(* A tensor is [dom, cod, a]: dom and cod are sequences of dimensions      *)
(* (positive integers) and a is the row-major flattening of the matrix     *)
(* from the flattened domain to the flattened codomain (1-based sequence   *)
(* of ring elements, row index = domain multi-index with the leftmost wire *)
(* most significant).  Ring elements must be in canonical form so that =   *)
(* decides equality.  This is the definition C08 states: composition is    *)
(* the matrix product, tensor the Kronecker product, dagger the conjugate  *)
(* transpose, swaps block permutation matrices, cups/caps (nested)         *)
(* identity vectors.                                                       *)
(***************************************************************************)
EXTENDS Naturals, Integers, Sequences, FiniteSets, TLC
CONSTANTS RAdd(_, _), RMul(_, _), RConj(_), RZero, ROne

RECURSIVE Size(_)
Size(D) == IF D = <<>> THEN 1 ELSE Head(D) * Size(Tail(D))
Rows(A) == Size(A.dom)
Cols(A) == Size(A.cod)
Ent(A, r, c) == A.a[r * Cols(A) + c + 1]                       \* 0-based r, c
T(dm, cd, f(_, _)) ==                                           \* tensor from an entry function
  LET m == Size(cd) IN
  [dom |-> dm, cod |-> cd,
   a |-> TLCEval([k \in 1..(Size(dm) * m) |-> TLCEval(f((k - 1) \div m, (k - 1) % m))])]
RECURSIVE SumTo(_, _)
SumTo(f(_), n) == IF n = 0 THEN RZero ELSE RAdd(SumTo(f, n - 1), f(n - 1))   \* f(0) + ... + f(n-1)

MatThen(A, B) == LET n == Cols(A) m == Cols(B) IN
  T(A.dom, B.cod, LAMBDA r, c : LET g(k) == RMul(A.a[r * n + k + 1], B.a[k * m + c + 1]) IN SumTo(g, n))
Kron(A, B) == LET rb == Rows(B) cb == Cols(B) ca == Cols(A) IN
  T(A.dom \o B.dom, A.cod \o B.cod,
    LAMBDA r, c : RMul(A.a[(r \div rb) * ca + (c \div cb) + 1], B.a[(r % rb) * cb + (c % cb) + 1]))
ConjT(A) == T(A.cod, A.dom, LAMBDA r, c : RConj(Ent(A, c, r)))
IdT(D) == T(D, D, LAMBDA r, c : IF r = c THEN ROne ELSE RZero)
\* the wires of l, in order, move to the right of the wires of r
SwapT(l, r) == LET L == Size(l) R == Size(r) IN
  T(l \o r, r \o l, LAMBDA row, col : IF row \div R = col % L /\ row % R = col \div L THEN ROne ELSE RZero)
RevSeq(s) == [k \in 1..Len(s) |-> s[Len(s) + 1 - k]]
\* digits of n in the mixed radix D (leftmost most significant)
RECURSIVE Digits(_, _)
Digits(n, D) == IF D = <<>> THEN <<>>
                ELSE Digits(n \div D[Len(D)], SubSeq(D, 1, Len(D) - 1)) \o <<n % D[Len(D)]>>
RECURSIVE FromDigits(_, _)
FromDigits(g, D) == IF g = <<>> THEN 0 ELSE FromDigits(SubSeq(g, 1, Len(g) - 1), SubSeq(D, 1, Len(D) - 1)) * D[Len(D)] + g[Len(g)]
\* the transpose of a map between self-dual objects (bend every wire round with nested cups and caps): the wires come
\* out in reverse order, the entries are those of the matrix transpose
TransposeT(A) == T(RevSeq(A.cod), RevSeq(A.dom),
   LAMBDA r, c : Ent(A, FromDigits(RevSeq(Digits(c, RevSeq(A.dom))), A.dom), FromDigits(RevSeq(Digits(r, RevSeq(A.cod))), A.cod)))
\* cups(t, t.r): t (x) reverse(t) -> (), the nested cups pairing wire m of t with its mirror image
CupT(D) == T(D \o RevSeq(D), <<>>,
             LAMBDA r, c : LET g == Digits(r, D \o RevSeq(D)) k == Len(D) IN
                           IF \A m \in 1..k : g[m] = g[2 * k + 1 - m] THEN ROne ELSE RZero)
CapT(D) == LET C == CupT(RevSeq(D)) IN [dom |-> <<>>, cod |-> C.dom, a |-> C.a]   \* () -> reverse(t) (x) t ... see CapOf
\* caps(t, t.l) = dagger of cups: () -> t (x) reverse(t)
CapOf(D) == ConjT(CupT(D))
Whisker(l, A, r) == Kron(Kron(IdT(l), A), IdT(r))
\* entrywise operations
MapT(A, f(_)) == [A EXCEPT !.a = TLCEval([k \in 1..Len(A.a) |-> f(A.a[k])])]
ScaleT(s, A) == MapT(A, LAMBDA v : RMul(s, v))
AddT(A, B) == [A EXCEPT !.a = TLCEval([k \in 1..Len(A.a) |-> RAdd(A.a[k], B.a[k])])]
\* the spider with n legs in and m legs out on a wire of dimension dd: 1 iff all indices agree
SpiderT(n, m, dd) == T([k \in 1..n |-> dd], [k \in 1..m |-> dd],
   LAMBDA r, c : LET x == Digits(r, [k \in 1..n |-> dd]) \o Digits(c, [k \in 1..m |-> dd]) IN
                 IF n + m = 0 THEN (LET f(i) == ROne IN SumTo(f, dd))      \* no leg: the sum over the basis
                 ELSE IF \A i, j \in 1..(n + m) : x[i] = x[j] THEN ROne ELSE RZero)
\* dropping wires of dimension 1 (what Dim does)
Norm1(D) == SelectSeq(D, LAMBDA x : x # 1)
=============================================================================
