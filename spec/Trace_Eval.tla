------------------------------ MODULE Trace_Eval ------------------------------
(***************************************************************************)
(* Trace validation for C09.  One line = one rigid diagram t.d evaluated   *)
(* by the real tensor.Functor under the interpretation DimOf (constant,    *)
(* one file per interpretation) with generic arrays:                       *)
(*   prefixes[k+1] = F(d[:k]) as [dom, cod, a]  (the state of the          *)
(*                   evaluation loop after k boxes), pexc its exception,   *)
(*   variants : [kind, val, exc]: the tensor obtained by evaluating a      *)
(*              rewritten form of d (an interchange, the normal form, the  *)
(*              same diagram given to tensor.Diagram.eval) - must be the   *)
(*              meaning of d itself.                                       *)
(***************************************************************************)
EXTENDS Eval, Json, IOUtils
Dims23 == <<<<2>>, <<3>>>>
Dims21 == <<<<2>>, <<1>>>>
Dims32 == <<<<3>>, <<2>>>>
\* multi-wire object images: x is sent to Dim(2, 2) (its own mirror image, so cups exist), resp. Dim(2, 3) (cup-free diagrams only)
DimsM22 == <<<<2, 2>>, <<3>>>>
DimsM23 == <<<<2, 3>>, <<2>>>>
SameT(x, y) == x.dom = y.dom /\ x.cod = y.cod /\ x.a = y.a
\* what a variant must evaluate to: a rewritten form of d denotes d; a formal sum the entrywise sum; a bubble
\* the entrywise image under its function; a spider its delta tensor
Sq(v) == GMul(v, v)
OneMinus(v) == GAdd(<<1, 0>>, <<0 - v[1], 0 - v[2]>>)
Expected(t, v) ==
  CASE v.kind = "sum" -> AddT(EvalD(t.d), EvalD(v.other))
    \* composites of a formal sum are formal sums again: (a + b) >> id, id(2) (x) (a + b), (a + b)^dagger
    [] v.kind = "sum_then" -> AddT(EvalD(t.d), EvalD(v.other))
    [] v.kind = "sum_tensor" -> Kron(IdT(<<2>>), AddT(EvalD(t.d), EvalD(v.other)))
    [] v.kind = "sum_dagger" -> ConjT(AddT(EvalD(t.d), EvalD(v.other)))
    [] v.kind = "bubble_sq" -> MapT(EvalD(t.d), Sq)
    [] v.kind = "bubble_1m" -> MapT(EvalD(t.d), OneMinus)
    \* a bubble whose function leaves the integers (multiplication by i) around boxes that hold integer arrays
    \* bending all wires round (rigid transpose, either side): the matrix transpose with the wires reversed
    [] v.kind \in {"transpose_l", "transpose_r"} -> TransposeT(EvalD(t.d))
    \* two bubbles with different functions around the same inside, side by side
    [] v.kind = "bubble_pair" -> Kron(MapT(EvalD(t.d), OneMinus), MapT(EvalD(t.d), LAMBDA z : GMul(z, <<0, 1>>)))
    [] v.kind = "bubble_i" -> MapT(EvalDRe(t.d), LAMBDA z : GMul(z, <<0, 1>>))
    [] v.kind = "spider" -> SpiderT(v.n, v.m, v.dim)
    [] v.kind = "spider_fusion" -> SpiderT(v.n, v.m, v.dim)
    [] OTHER -> EvalD(t.d)
J09(t) ==
  LET n == Len(t.d.boxes)
      badp == { k \in 0..n : ~SameT(t.prefixes[k + 1], EvalPrefix(t.d, k)) }
      badv == { v \in 1..Len(t.variants) : t.variants[v].exc # "" \/ ~SameT(t.variants[v].val, Expected(t, t.variants[v])) } IN
  IF t.pexc # "" THEN <<"evaluation-raised", 0>>
  ELSE IF Len(t.prefixes) # n + 1 THEN <<"missing-prefix", 0>>
  ELSE IF badp # {} THEN <<"prefix-is-not-the-layerwise-composite", CHOOSE k \in badp : \A j \in badp : k <= j>>
  ELSE IF badv # {} THEN LET v == CHOOSE v \in badv : \A j \in badv : v <= j IN
       <<IF t.variants[v].exc # "" THEN "variant-raised"
         ELSE IF t.variants[v].kind = "interchange" THEN "evaluation-not-invariant-under-interchange"
         ELSE IF t.variants[v].kind = "normal_form" THEN "evaluation-not-invariant-under-normalisation"
         ELSE IF t.variants[v].kind \in {"transpose_l", "transpose_r"} THEN "transpose-does-not-evaluate-to-the-transposed-matrix"
         ELSE IF t.variants[v].kind \in {"sum", "sum_then", "sum_tensor", "sum_dagger"} THEN "sum-is-not-the-entrywise-sum"
         ELSE IF t.variants[v].kind \in {"bubble_sq", "bubble_1m", "bubble_i", "bubble_pair"} THEN "bubble-is-not-the-entrywise-image"
         ELSE IF t.variants[v].kind \in {"spider", "spider_fusion"} THEN "spider-is-not-its-delta-tensor"
         ELSE "tensor-diagram-eval-differs-from-functor", v>>
  ELSE <<"ok", 0>>
Verdicts == LET TR == ndJsonDeserialize(IOEnv.TRACE_FILE) IN [l \in 1..Len(TR) |-> [v |-> J09(TR[l])]]
ASSUME ndJsonSerialize(IOEnv.OUT, Verdicts)
TVInit == d = IdD(<<>>)
TVNext == UNCHANGED d
=============================================================================
