---------------------------------- MODULE ZX ----------------------------------
(***************************************************************************)
(* ZX diagrams (C16, C17).  A ZX box is a record [k, n, m, ph, re, im, s]: *)
(* k in {"Z", "X", "H", "SWAP", "scalar"}; n, m : legs in / out; ph : phase *)
(* in sixteenths of a full turn; (re + i im)/sqrt2^s : value of a scalar.  *)
(* A ZX diagram is [dom |-> number of input wires, layers |-> <<[b, off]>>].*)
(* Standard interpretation (phases counted in full turns):                 *)
(*   Z(n, m, a) = |0..0><0..0| + e^{2 pi i a} |1..1><1..1|,                *)
(*   X(n, m, a) = H^(x)m . Z(n, m, a) . H^(x)n,  Hadamard, swap, scalar.   *)
(* Tensors are indexed [input, output] as in Gates.tla.                    *)
(***************************************************************************)
EXTENDS Gates
AllOnes(n) == 2 ^ n - 1
ZSp(n, m, ph) == T(Q(n), Q(m), LAMBDA r, cc :
                     IF n + m = 0 THEN Add(ROne, W(ph % 16))
                     ELSE IF r = 0 /\ cc = 0 THEN ROne
                     ELSE IF r = AllOnes(n) /\ cc = AllOnes(m) THEN W(ph % 16) ELSE RZero)
HadT == Base1("H", 0)
RECURSIVE HadN(_)
HadN(n) == IF n = 0 THEN IdT(<<>>) ELSE Kron(HadT, HadN(n - 1))
XSp(n, m, ph) == MatThen(MatThen(HadN(n), ZSp(n, m, ph)), HadN(m))
ZB(k, n, m, ph) == [k |-> k, n |-> n, m |-> m, ph |-> ph % 16, re |-> 0, im |-> 0, s |-> 0]
ZScalar(re, im, s) == [k |-> "scalar", n |-> 0, m |-> 0, ph |-> 0, re |-> re, im |-> im, s |-> s]
ZXBoxT(b) == CASE b.k = "Z" -> ZSp(b.n, b.m, b.ph)
               [] b.k = "X" -> XSp(b.n, b.m, b.ph)
               [] b.k = "H" -> HadT
               [] b.k = "SWAP" -> SwapT(<<2>>, <<2>>)
               [] b.k = "scalar" -> [dom |-> <<>>, cod |-> <<>>, a |-> <<Gauss(b.re, b.im, b.s)>>]
RECURSIVE ZXFrom(_, _, _, _)
ZXFrom(M, width, layers, k) ==
  IF k > Len(layers) THEN M
  ELSE LET t == ZXBoxT(layers[k].b) o == layers[k].off IN
       ZXFrom(TLCEval(MatThen(M, Whisker(Q(o), t, Q(width - o - Len(t.dom))))),
              width - Len(t.dom) + Len(t.cod), layers, k + 1)
ZXSem(d) == ZXFrom(IdT(Q(d.dom)), d.dom, d.layers, 1)
RECURSIVE ZXWidth(_, _, _)
ZXWidth(w, layers, k) == IF k > Len(layers) THEN w
                         ELSE ZXWidth(w - layers[k].b.n + layers[k].b.m, layers, k + 1)
ZXCod(d) == ZXWidth(d.dom, d.layers, 1)
\* dagger of a ZX diagram: boxes in reverse order, spiders with negated phase, scalars conjugated
ZXDagBox(b) == IF b.k \in {"Z", "X"} THEN [b EXCEPT !.n = b.m, !.m = b.n, !.ph = (16 - b.ph) % 16]
               ELSE IF b.k = "scalar" THEN [b EXCEPT !.im = 0 - b.im] ELSE b
ZXDag(d) == [dom |-> ZXCod(d),
             layers |-> [k \in 1..Len(d.layers) |->
                LET l == d.layers[Len(d.layers) + 1 - k] IN [b |-> ZXDagBox(l.b), off |-> l.off]]]

(***************************************************************************)
(* The translation table gate2zx.  Lay(...) builds a ZX diagram from       *)
(* layers.  Halving = TRUE is the table with the controlled rotations      *)
(* decomposed with half angles (what denotes the gate); Halving = FALSE is *)
(* the table as the library had it.  Gate phases are in eighths of a turn, *)
(* spider phases in sixteenths: a gate phase p is the spider phase 2p, its *)
(* half is p.                                                              *)
(***************************************************************************)
CONSTANT Halving
L(b, off) == [b |-> b, off |-> off]
Ctl3(kA, kB, a, b, cc) ==      \* kA(1,2,a) @ kA(1,2,b) >> Id @ (kB(2,1) >> kA(1,0,cc)) @ Id
  [dom |-> 2, layers |-> << L(ZB(kA, 1, 2, a), 0), L(ZB(kA, 1, 2, b), 2), L(ZB(kB, 2, 1, 0), 1), L(ZB(kA, 1, 0, cc), 1) >>]
Gate2ZX(g) ==
  LET p == PhMod(g.ph)  full == (2 * p) % 16  h == IF Halving THEN p ELSE full IN
  CASE g.k = "H" -> [dom |-> 1, layers |-> <<L(ZB("H", 1, 1, 0), 0)>>]
    [] g.k = "Z" -> [dom |-> 1, layers |-> <<L(ZB("Z", 1, 1, 8), 0)>>]
    [] g.k = "X" -> [dom |-> 1, layers |-> <<L(ZB("X", 1, 1, 8), 0)>>]
    [] g.k = "Y" -> [dom |-> 1, layers |-> <<L(ZB("Z", 1, 1, 8), 0), L(ZB("X", 1, 1, 8), 0), L(ZScalar(0, 1, 0), 1)>>]
    [] g.k = "Rz" -> [dom |-> 1, layers |-> <<L(ZB("Z", 1, 1, full), 0)>>]
    [] g.k = "Rx" -> [dom |-> 1, layers |-> <<L(ZB("X", 1, 1, full), 0)>>]
    [] g.k = "CX" -> [dom |-> 2, layers |-> <<L(ZB("Z", 1, 2, 0), 0), L(ZB("X", 2, 1, 0), 1)>>]
    [] g.k = "CZ" -> [dom |-> 2, layers |-> <<L(ZB("Z", 1, 2, 0), 0), L(ZB("H", 1, 1, 0), 1), L(ZB("Z", 2, 1, 0), 1)>>]
    [] g.k = "CRz" -> Ctl3("Z", "X", 0, h, 16 - h)
    [] g.k = "CRx" -> IF Halving
                      \* CRx = (I (x) H) CRz (I (x) H): only the target changes colour, the leg from the
                      \* target to the phase gadget carries a Hadamard
                      THEN [dom |-> 2, layers |-> << L(ZB("Z", 1, 2, 0), 0), L(ZB("X", 1, 2, h), 2), L(ZB("H", 1, 1, 0), 2),
                                                    L(ZB("X", 2, 1, 0), 1), L(ZB("Z", 1, 0, 16 - h), 1) >>]
                      ELSE Ctl3("X", "Z", 0, h, 16 - h)
    [] g.k = "CU1" -> Ctl3("Z", "X", h, h, 16 - h)
SupportedKinds == {"H", "Z", "X", "Y", "Rz", "Rx", "CX", "CZ", "CRz", "CRx", "CU1"}

VARIABLES zd       \* a ZX diagram (the register of the builder)
ZXMenu == { ZB(k, n, m, ph) : k \in {"Z", "X"}, n \in 0..2, m \in 0..2, ph \in {0, 3, 8} }
          \cup { ZB("H", 1, 1, 0), ZB("SWAP", 2, 2, 0), ZScalar(1, 1, 1), ZScalar(0, 1, 0), ZScalar(1, 1, 0), ZScalar(1, 0 - 2, 2) }
CONSTANTS ZMaxW, ZMaxBoxes
ZInit == c = [dom |-> 0, layers |-> <<>>] /\ zd \in { [dom |-> n, layers |-> <<>>] : n \in 0..ZMaxW }
ZBuild == /\ Len(zd.layers) < ZMaxBoxes
          /\ \E b \in ZXMenu, o \in 0..ZXCod(zd) :
               /\ o + b.n <= ZXCod(zd) /\ ZXCod(zd) - b.n + b.m <= ZMaxW
               /\ zd' = [zd EXCEPT !.layers = Append(zd.layers, L(b, o))]
          /\ UNCHANGED c
ZSpec == ZInit /\ [][ZBuild]_<<c, zd>>
\* the dagger rule of ZX diagrams denotes the conjugate transpose
InvZXDagger == ZXSem(ZXDag(zd)) = ConjT(ZXSem(zd))
\* the translation table: every supported gate is proportional to its ZX image
InvTable == \A k \in SupportedKinds : \A ph \in Phases :
               PropTo(ZXSem(Gate2ZX(G(k, ph, 0))), GateT(G(k, ph, 0)))
=============================================================================
