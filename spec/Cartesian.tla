------------------------------ MODULE Cartesian ------------------------------
(***************************************************************************)
(* Cartesian diagrams compute the function they draw (C19).                *)
(* State of the evaluation machine: a tuple of values (one per open wire). *)
(* Values are integers, plus one opaque value NONE that is not a number    *)
(* (Python's None: a lookup that misses): it can be copied, swapped,       *)
(* discarded and tested, arithmetic on it is an error (the call raises),   *)
(* and on a wire it is a value like any other - never "no value".  ApplyBox(f, off) feeds the wires at the box's offset through f  *)
(* and splices its outputs back in place.  The menu of functions is        *)
(* defined here and, identically, in the Python adapter.                   *)
(***************************************************************************)
EXTENDS Diagrams

W == <<1, 0>>                                   \* the single wire type of PRO
Wn(n) == [k \in 1..n |-> W]
\* id |-> [n inputs, m outputs]
Arity == << <<0, 1>>, <<1, 1>>, <<2, 1>>, <<1, 2>>, <<1, 2>>, <<2, 2>>, <<1, 0>>, <<2, 1>>,
            <<3, 3>>, <<0, 0>>, <<0, 2>>, <<2, 3>>, <<0, 1>>, <<1, 1>>, <<1, 2>> >>
NONE == 0 - 1000                                \* code of the opaque value
LISTV == 0 - 1001                               \* code of a second opaque value that is itself a list ([1, 2]): one value on one wire
ERR  == 0 - 2000                                \* the evaluation raised
Arithmetic == {2, 3, 4, 8, 9, 12}
Opaque(a) == \E k \in 1..Len(a) : a[k] \in {NONE, LISTV}
Min3(a, b, c) == IF a <= b /\ a <= c THEN a ELSE IF b <= c THEN b ELSE c
Max3(a, b, c) == IF a >= b /\ a >= c THEN a ELSE IF b >= c THEN b ELSE c
Fun(id, a) ==
  IF id \in Arithmetic /\ Opaque(a) THEN <<ERR>> ELSE
  CASE id = 1  -> <<7>>                       \* const
    [] id = 2  -> <<0 - a[1]>>                \* neg
    [] id = 3  -> <<a[1] + a[2]>>             \* add
    [] id = 4  -> <<a[1], a[1] + 1>>          \* pair
    [] id = 5  -> <<a[1], a[1]>>              \* copy
    [] id = 6  -> <<a[2], a[1]>>              \* swap
    [] id = 7  -> <<>>                        \* discard
    [] id = 8  -> <<a[1] - a[2]>>             \* sub (non-commutative)
    [] id = 9  -> <<Min3(a[1], a[2], a[3]), a[1] + a[2] + a[3] - Min3(a[1], a[2], a[3]) - Max3(a[1], a[2], a[3]),
                    Max3(a[1], a[2], a[3])>>  \* sort3
    [] id = 10 -> <<>>                        \* unit (0 -> 0)
    [] id = 11 -> <<1, 2>>                    \* two constants
    [] id = 12 -> <<a[1], a[2], 2 * a[1] + a[2]>>
    [] id = 13 -> <<NONE>>                    \* a lookup that misses
    [] id = 14 -> <<IF a[1] = NONE THEN 1 ELSE 0>>
    [] id = 15 -> <<a[1], NONE>>
FBox(id) == [id |-> id, kind |-> 0, dom |-> Wn(Arity[id][1]), cod |-> Wn(Arity[id][2]), dg |-> 0]

ApplyBox(vals, id, off) ==
  LET out == Fun(id, Slice(vals, off, off + Arity[id][1])) IN
  IF vals = <<ERR>> \/ out = <<ERR>> THEN <<ERR>> ELSE
  Slice(vals, 0, off) \o Fun(id, Slice(vals, off, off + Arity[id][1]))
                      \o Slice(vals, off + Arity[id][1], Len(vals))
RECURSIVE EvalFrom(_, _, _)
EvalFrom(vals, dd, k) == IF k > Len(dd.boxes) THEN vals
                         ELSE EvalFrom(ApplyBox(vals, dd.boxes[k].id, dd.offs[k]), dd, k + 1)
EvalD(dd, xs) == EvalFrom(xs, dd, 1)

\* structural diagrams by their meaning
SwapF(l, xs)  == Slice(xs, l, Len(xs)) \o Slice(xs, 0, l)
CopyF(xs)     == xs \o xs
DiscardF(xs)  == <<>>

(***************************************************************************)
(* Exhaustive model: all cartesian diagrams within bounds, and the machine *)
(* that evaluates them one box at a time.                                  *)
(***************************************************************************)
CONSTANTS MaxBoxes, MaxWidth, Inputs      \* Inputs: set of integers fed to the wires
VARIABLES d
Init == d \in { IdD(Wn(n)) : n \in 0..MaxWidth }
Build == /\ Len(d.boxes) < MaxBoxes
         /\ \E id \in 1..Len(Arity), o \in 0..Len(d.cod) :
              /\ Fits(d.cod, FBox(id), o) /\ Len(After(d.cod, FBox(id), o)) <= MaxWidth
              /\ d' = Then(d, Diag(d.cod, After(d.cod, FBox(id), o), <<FBox(id)>>, <<o>>))
Spec == Init /\ [][Build]_d

Tuples(n) == [1..n -> Inputs]
InvArity == \A xs \in Tuples(Len(d.dom)) : EvalD(d, xs) = <<ERR>> \/ Len(EvalD(d, xs)) = Len(d.cod)
\* naturality of swap, copy and discard with respect to the last box f : n -> m
\* (the cartesian axioms, as equalities of tuples)
InvNatural ==
  \A id \in 1..Len(Arity) : \A xs \in Tuples(Arity[id][1] + 1) :
    LET n == Arity[id][1]  a == Slice(xs, 0, n)  z == xs[n + 1] IN
    (Fun(id, a) # <<ERR>>) =>
       /\ SwapF(Arity[id][2], Fun(id, a) \o <<z>>) = <<z>> \o Fun(id, a)
       /\ CopyF(Fun(id, a)) = Fun(id, a) \o Fun(id, a)
       /\ DiscardF(Fun(id, a)) = <<>>
=============================================================================
