------------------------------ MODULE SigRigid ------------------------------
(* Signature of the free rigid category used by the API machine: atoms with  *)
(* winding numbers, plain boxes (one on an adjoint type), swaps, and cups /  *)
(* caps of every orientation the library accepts.                            *)
EXTENDS Naturals, Integers, Sequences
X(z) == <<1, z>>
Y == <<2, 0>>
PB(id, dm, cd) == [id |-> id, kind |-> 0, dom |-> dm, cod |-> cd, dg |-> 0]
SB(kind, dm, cd) == [id |-> 0, kind |-> kind, dom |-> dm, cod |-> cd, dg |-> 0]
SigR == << PB(1, <<X(0)>>, <<Y>>), PB(2, <<Y>>, <<X(0), X(0)>>), PB(4, <<>>, <<X(0)>>), PB(5, <<Y>>, <<>>),
           PB(7, <<X(1)>>, <<X(1)>>),
           SB(1, <<X(0), Y>>, <<Y, X(0)>>), SB(1, <<X(0), X(0)>>, <<X(0), X(0)>>), SB(1, <<X(1), X(0)>>, <<X(0), X(1)>>),
           SB(2, <<X(0), X(1)>>, <<>>), SB(2, <<X(0 - 1), X(0)>>, <<>>), SB(2, <<X(1), X(0)>>, <<>>),
           SB(3, <<>>, <<X(1), X(0)>>), SB(3, <<>>, <<X(0), X(0 - 1)>>) >>
DomsR == { <<>>, <<X(0)>>, <<Y>>, <<X(0), Y>>, <<X(1)>> }
=============================================================================
