------------------------------ MODULE Trace_Tket ------------------------------
(***************************************************************************)
(* C13.  kind "to_tk": a mixed circuit t.mc and the projection t.tk of the *)
(* tket circuit the real to_tk returned; TLC computes exactly              *)
(*   want = CQ!Counts(t.mc)   (the circuit's own distribution) and         *)
(*   got  = Tket!Post(t.tk)   (simulate, post-select, scale, post-process) *)
(* and judges got = want.  kind "from_tk": a tket circuit t.tk and the     *)
(* projection t.mc of the circuit the real from_tk returned: Counts(t.mc)  *)
(* = Post(t.tk).  Both arrays are also written out for the backend leg.    *)
(***************************************************************************)
EXTENDS Tket, Json, IOUtils
PhasesQ == {1}
\* from_tk of a measurement-free tket circuit: Kets, gates and swaps followed by discards; its pure part
\* (the discards removed) must prepare exactly the state vector the tket circuit prepares
OutPure(t) ==
  LET want == RunCmds(<<[bits |-> <<>>, vec |-> Vec0(t.tk.nq)]>>, t.tk.nq, t.tk.cmds, 1)[1].vec.a
      got == Sem(AsPure(t.mc)).a IN
  [v |-> <<IF want = got THEN "ok" ELSE "imported-circuit-does-not-compute-the-tket-circuit">>,
   want |-> want, got |-> got, raw |-> <<>>]
Out(t) ==
  IF t.exc # "" THEN [v |-> <<"translation-raised">>, want |-> <<>>, got |-> <<>>, raw |-> <<>>]
  ELSE IF t.kind = "from_tk_pure" THEN OutPure(t)
  ELSE LET want == Counts(t.mc).a  got == Post(t.tk) IN
       [v |-> <<IF Len(want) # Len(got) THEN "number-of-output-bits-differs"
                ELSE IF want = got THEN "ok"
                ELSE IF t.kind = "to_tk" THEN "exported-circuit-does-not-give-the-circuits-distribution"
                ELSE "imported-circuit-does-not-compute-the-tket-circuit">>,
        want |-> want, got |-> got, raw |-> TkDist(t.tk)]
Verdicts == LET TR == ndJsonDeserialize(IOEnv.TRACE_FILE) IN [l \in 1..Len(TR) |-> Out(TR[l])]
ASSUME ndJsonSerialize(IOEnv.OUT, Verdicts)
TVInit == MInit
TVNext == UNCHANGED <<c, mc>>
=============================================================================
