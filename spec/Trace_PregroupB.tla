--------------------------- MODULE Trace_PregroupB ---------------------------
(***************************************************************************)
(* Behaviour-style trace validation for eager pregroup parsing (C18): the  *)
(* recorded history of ONE real eager_parse call is checked to be a        *)
(* behaviour of MC_Pregroup!Spec.  The trace file has one JSON object      *)
(*   [sent, target, cups]      cups = offsets of the cups of the returned   *)
(* diagram, in order (the event log: one Contract event per cup).          *)
(* TraceInit binds the request, every TraceNext step must be the           *)
(* specification's own Step *and* record exactly the logged offset; the     *)
(* trace is accepted iff all events were consumed and the machine is done   *)
(* (POSTCONDITION TraceAccepted, deadlock checking off).                    *)
(***************************************************************************)
EXTENDS MC_Pregroup, TLCExt
Tr == ndJsonDeserialize(IOEnv.TRACE_FILE)[1]
VARIABLE l
TraceInit == /\ Init /\ sent = Tr.sent /\ target = Tr.target /\ l = 1
TraceStep == /\ l <= Len(Tr.cups)
             /\ Step
             /\ Len(cups') = Len(cups) + 1 /\ cups'[Len(cups')] = Tr.cups[l]      \* the logged event
             /\ l' = l + 1
\* the final check "result.cod == target" of the loop takes no cup: a silent step, bounded by the trace
TraceSilent == /\ l = Len(Tr.cups) + 1 /\ status = "parsing" /\ Step /\ cups' = cups /\ UNCHANGED l
TraceNext == TraceStep \/ TraceSilent
TraceSpec == TraceInit /\ [][TraceNext]_<<vars, l>>
TraceAccepted == TLCGet("stats").diameter >= Len(Tr.cups) + 1
TraceDone == <>(l = Len(Tr.cups) + 1 /\ status = "done")
\* reached the end of the log in state "done": expressed as an invariant on the last level via a counter-example-free check
InvEndsDone == (l = Len(Tr.cups) + 1 /\ ~ENABLED TraceNext) => status = "done"
=============================================================================
