-------------------------- MODULE Trace_MonoidalTie --------------------------
EXTENDS SigTie, Json, IOUtils
VARIABLES d, last
INSTANCE Trace_Diagram WITH Sig <- SigT, Doms <- {<<>>}, MaxBoxes <- 0, MaxWidth <- 0
ASSUME ndJsonSerialize(IOEnv.OUT, Verdicts)
=============================================================================
