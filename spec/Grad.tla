---------------------------------- MODULE Grad ----------------------------------
(***************************************************************************)
(* Gradients (C15).  For a parametrised circuit whose phases are affine    *)
(* forms, the partial derivative of its evaluation with respect to a       *)
(* symbol is, by multilinearity in the boxes,                              *)
(*     sum over parametrised boxes k of  (d form_k / d symbol) *           *)
(*         [the circuit with box k replaced by the derivative of its map]. *)
(* The derivative of a rotation's tensor with respect to its phase (in     *)
(* turns) is  pi * R(phase + 1/2 turn)  (restricted to the controlled      *)
(* block for controlled rotations), so every value is  A + pi * B  with A, *)
(* B exact ring elements: A collects the scalar boxes, B the rotations.    *)
(* Pure gradients differentiate the amplitudes, mixed ones the CQ map      *)
(* conj(U) (x) U (product rule) and |s|^2 for amplitude scalars.           *)
(***************************************************************************)
EXTENDS Param
ZeroLike(M) == MapT(M, LAMBDA v : RZero)
\* (1/pi) d/dphase of the tensor of a rotation box g (dg = 0), phase p in eighths of a turn
Ctl0(GG) == T(<<2, 2>>, <<2, 2>>, LAMBDA r, cc : IF r < 2 \/ cc < 2 THEN RZero ELSE Ent(GG, r - 2, cc - 2))
DGateT(g, p) ==
  CASE g.k \in {"Rx", "Ry", "Rz"} -> Base1(g.k, (p + 4) % 16)
    [] g.k = "CRz" -> Ctl0(Base1("Rz", (p + 4) % 16))
    [] g.k = "CRx" -> Ctl0(Base1("Rx", (p + 4) % 16))
    [] g.k = "CU1" -> Diag4(RZero, RZero, RZero, Mul(FromInt(2), Mul(RI, W((2 * p) % 16))))
IsRot(g) == g.par = 1 /\ g.k \in {"Rx", "Ry", "Rz", "CRz", "CRx", "CU1"}
IsSc(g) == g.par = 1 /\ g.k \in {"scalar", "mscalar", "sqrt"}
\* d sqrt(f) = f' / (2 sqrt f): the factor 1 / (2 sqrt(c0/8)) for the admissible values of SqrtVal
DSqrt(c0) == CASE c0 = 1 -> Gauss(2, 0, 1) [] c0 = 2 -> Gauss(1, 0, 0) [] c0 = 4 -> Gauss(1, 0, 1) [] c0 = 8 -> Gauss(1, 0, 2)
               [] c0 = 16 -> Gauss(1, 0, 3) [] c0 = 32 -> Gauss(1, 0, 4)
ScT(v) == [dom |-> <<>>, cod |-> <<>>, a |-> <<v>>]
Coef(g, v) == IF v = "x" THEN g.pf.cx ELSE g.pf.cy
Scal(M, n) == ScaleT(FromInt(n), M)
\* fold a circuit with an explicit tensor per layer
RECURSIVE SemTsFrom(_, _, _, _, _)
SemTsFrom(M, width, Ts, offs, k) ==
  IF k > Len(Ts) THEN M
  ELSE SemTsFrom(TLCEval(MatThen(M, Whisker(Q(offs[k]), Ts[k], Q(width - offs[k] - Len(Ts[k].dom))))),
                 width - Len(Ts[k].dom) + Len(Ts[k].cod), Ts, offs, k + 1)
\* pure: qc is a ground, normalised, all-pure parametrised circuit at the point
PureTs(qc) == [k \in 1..Len(qc.layers) |-> GateT(qc.layers[k].g)]
Offs(qc) == [k \in 1..Len(qc.layers) |-> qc.layers[k].off]
One00 == [dom |-> <<>>, cod |-> <<>>, a |-> <<ROne>>]
RECURSIVE SumTs(_, _, _)
SumTs(f(_), n, zero) == IF n = 0 THEN zero ELSE AddT(SumTs(f, n - 1, zero), f(n))
PureGrad(pcirc, qc, v) ==          \* pcirc: symbolic (normalised), qc: its ground instance at the point
  LET n == Len(qc.layers) base == PureTs(qc) zero == ZeroLike(SemTsFrom(IdT(Q(Len(qc.ty))), Len(qc.ty), base, Offs(qc), 1))
      termB(k) == LET g == pcirc.layers[k].g IN
                  IF IsRot(g) /\ Coef(g, v) # 0
                  THEN Scal(SemTsFrom(IdT(Q(Len(qc.ty))), Len(qc.ty), [base EXCEPT ![k] = DGateT(g, qc.layers[k].g.ph)], Offs(qc), 1), Coef(g, v))
                  ELSE zero
      termA(k) == LET g == pcirc.layers[k].g IN
                  IF IsSc(g) /\ Coef(g, v) # 0
                  THEN Scal(SemTsFrom(IdT(Q(Len(qc.ty))), Len(qc.ty),
                                      [base EXCEPT ![k] = IF g.k = "sqrt" THEN ScT(DSqrt(qc.layers[k].g.pf.c0)) ELSE One00], Offs(qc), 1), Coef(g, v))
                  ELSE zero IN
  [A |-> SumTs(termA, n, zero).a, B |-> SumTs(termB, n, zero).a]
\* mixed: CQ maps per layer
RECURSIVE CQMsFrom(_, _, _, _, _)
CQMsFrom(M, ty, Ms, layers, k) ==
  IF k > Len(layers) THEN M
  ELSE LET g == layers[k].g o == layers[k].off n == Len(BoxDom(g)) IN
       CQMsFrom(CQThen(M, Whisk(SubSeq(ty, 1, o), Ms[k], SubSeq(ty, o + n + 1, Len(ty)))),
                SubSeq(ty, 1, o) \o BoxCod(g) \o SubSeq(ty, o + n + 1, Len(ty)), Ms, layers, k + 1)
DCQRot(g, p) == LET U == BaseT([g EXCEPT !.ph = p]) D == DGateT(g, p) IN
  CQM(0, Len(U.dom), 0, Len(U.cod), AddT(Kron(ConjE(D), U), Kron(ConjE(U), D)))
Sc00(v) == CQM(0, 0, 0, 0, [dom |-> <<>>, cod |-> <<>>, a |-> <<v>>])
MixedGrad(pcirc, qc, v) ==
  LET n == Len(qc.layers)
      base == [k \in 1..n |-> BoxCQ(qc.layers[k].g)]
      full == CQMsFrom(CQId(qc.ty), qc.ty, base, qc.layers, 1).m
      zero == ZeroLike(full)
      termB(k) == LET g == pcirc.layers[k].g IN
                  IF IsRot(g) /\ Coef(g, v) # 0
                  THEN Scal(CQMsFrom(CQId(qc.ty), qc.ty, [base EXCEPT ![k] = DCQRot(g, qc.layers[k].g.ph)], qc.layers, 1).m, Coef(g, v))
                  ELSE zero
      termA(k) == LET g == pcirc.layers[k].g gq == qc.layers[k].g IN
                  IF IsSc(g) /\ Coef(g, v) # 0
                  THEN LET d == IF g.k \in {"mscalar", "sqrt"} THEN FromInt(Coef(g, v))           \* d|sqrt f|^2 = f'
                                ELSE Mul(FromInt(2 * Coef(g, v)), Gauss(gq.re, gq.im, gq.s)) IN   \* d|s|^2 = 2 s s'
                       CQMsFrom(CQId(qc.ty), qc.ty, [base EXCEPT ![k] = Sc00(d)], qc.layers, 1).m
                  ELSE zero IN
  [A |-> SumTs(termA, n, zero).a, B |-> SumTs(termB, n, zero).a]
\* the parameter-shift identity used by the default gradients of one-qubit rotations (model-level)
InvParamShift == \A k \in {"Rx", "Ry", "Rz"} : \A p \in 0..15 :
   LET g == PGate(k, Const(p)) IN
   AddT(CQPure(Base1(k, (p + 2) % 16)).m, ScaleT(FromInt(0 - 1), CQPure(Base1(k, (p + 14) % 16)).m)) = DCQRot(g, p).m
=============================================================================
