------------------------------ MODULE Trace_Param ------------------------------
(***************************************************************************)
(* C14.  One line: a parametrised circuit t.pc, a chain of substitution    *)
(* steps t.chain, the projection t.res of what the real chain of .subs()   *)
(* calls returned, the free symbols the library reported before (t.fs0)    *)
(* and after (t.fs1).  TLC judges structure and free symbols and computes  *)
(* the exact arrays the closed result must evaluate to.                    *)
(***************************************************************************)
EXTENDS Param, Json, IOUtils
PhasesQ == {1}
\* the library writes the dagger of a rotation as the rotation by the negated phase
NormBox(g) == IF g.par = 1 /\ g.dg = 1 /\ g.k \in {"Rx", "Ry", "Rz", "CU1", "CRz", "CRx"}
              THEN [g EXCEPT !.dg = 0, !.pf = Form(0 - g.pf.c0, 0 - g.pf.cx, 0 - g.pf.cy)] ELSE g
NormCirc(p) == [p EXCEPT !.layers = [k \in 1..Len(p.layers) |-> [p.layers[k] EXCEPT !.g = NormBox(p.layers[k].g)]]]
SetOf(s) == { s[k] : k \in 1..Len(s) }
Out(t) ==
  LET want == NormCirc(SubsChain(t.pc, t.chain, 1))
      clause == IF t.exc # "" THEN "substitution-raised"
                ELSE IF Skeleton(t.res) # Skeleton(want) THEN "substitution-changed-kinds-flags-or-types"
                ELSE IF t.res # want THEN "substituted-parameters-differ"
                ELSE IF SetOf(t.fs0) # FSCirc(t.pc) THEN "free-symbols-of-the-diagram-wrong"
                ELSE IF SetOf(t.fs1) # FSCirc(want) THEN "free-symbols-after-substitution-wrong"
                ELSE "ok"
      closed == Closed(want)
      g == GroundCirc(want) IN
  [v |-> <<clause>>, closed |-> closed,
   e |-> IF closed THEN CQSem(g).m.a ELSE <<>>,
   pure |-> IF closed /\ AllPure(g) THEN Sem(AsPure(g)).a ELSE <<>>,
   mixed |-> closed /\ SpecIsMixed(g)]
Verdicts == LET TR == ndJsonDeserialize(IOEnv.TRACE_FILE) IN [l \in 1..Len(TR) |-> Out(TR[l])]
ASSUME ndJsonSerialize(IOEnv.OUT, Verdicts)
TVInit == PInit
TVNext == UNCHANGED <<c, mc, pc, hist>>
=============================================================================
