------------------------------ MODULE TensorCat ------------------------------
(***************************************************************************)
(* Register machine over tensors with Gaussian-integer entries (C08).      *)
(* The register holds a tensor; the actions are the operations of the      *)
(* category of matrices applied to the register and generic, deliberately  *)
(* non-symmetric, arrays.  The invariants are the laws of a dagger         *)
(* compact-closed category for the operators of Mat.tla (this validates    *)
(* the definitions the code is judged against).                            *)
(***************************************************************************)
EXTENDS GaussMat
CONSTANTS Dims,        \* set of dimensions, e.g. {2, 3}
          MaxWires,    \* max wires on either side of the register
          MaxSize,     \* max Rows * Cols of the register
          MaxEntry     \* max magnitude of an entry of the register (TLC integers are 32-bit)
\* generic array number s of shape dm -> cd: entries depend on row, column and s, not symmetric
Gen(s, dm, cd) == T(dm, cd, LAMBDA r, c : <<1 + 2 * r + 3 * c + 7 * s + ((r * c + s) % 5), r - 2 * c + s>>)
Types == UNION { [1..n -> Dims] : n \in 0..MaxWires }
VARIABLES t, last
vars == <<t, last>>
Abs(v) == IF v < 0 THEN 0 - v ELSE v
Small(A) == /\ Len(A.dom) <= MaxWires /\ Len(A.cod) <= MaxWires /\ Rows(A) * Cols(A) <= MaxSize
            /\ \A k \in 1..Len(A.a) : Abs(A.a[k][1]) <= MaxEntry /\ Abs(A.a[k][2]) <= MaxEntry
L(op, x, y) == [op |-> op, x |-> x, y |-> y]
Init == \E dm \in Types, cd \in Types, s \in 1..2 : t = Gen(s, dm, cd) /\ Small(t) /\ last = L("gen", s, 0)
ThenGen == \E cd \in Types, s \in 1..2 : LET B == Gen(s, t.cod, cd) R == MatThen(t, B) IN
             Small(B) /\ Small(R) /\ t' = R /\ last' = L("then", s, cd)
KronGen == \E dm \in Types, cd \in Types, s \in 1..2, side \in 0..1 :
             LET B == Gen(s, dm, cd) R == IF side = 0 THEN Kron(t, B) ELSE Kron(B, t) IN
             Small(B) /\ Small(R) /\ t' = R /\ last' = L(IF side = 0 THEN "kronR" ELSE "kronL", s, <<dm, cd>>)
Dag == t' = ConjT(t) /\ last' = L("dagger", 0, 0)
Next == ThenGen \/ KronGen \/ Dag
Spec == Init /\ [][Next]_vars
View == t

InvLaws ==
  /\ ConjT(ConjT(t)) = t
  /\ MatThen(IdT(t.dom), t) = t /\ MatThen(t, IdT(t.cod)) = t
  /\ Kron(IdT(<<>>), t) = t /\ Kron(t, IdT(<<>>)) = t
  /\ ConjT(MatThen(t, ConjT(t))) = MatThen(t, ConjT(t))
\* interchange law and naturality of swaps against a generic second tensor
InvInterchange ==
  \A cd \in Types : LET B == Gen(2, <<2>>, cd) IN Small(B) /\ Small(Kron(t, B)) =>
     /\ Kron(t, B) = MatThen(Whisker(<<>>, t, B.dom), Whisker(t.cod, B, <<>>))
     /\ Kron(t, B) = MatThen(Whisker(t.dom, B, <<>>), Whisker(<<>>, t, B.cod))
     /\ MatThen(Kron(t, B), SwapT(t.cod, B.cod)) = MatThen(SwapT(t.dom, B.dom), Kron(B, t))
\* both snake equations for the (multi-wire) codomain type of the register
InvSnake ==
  LET D == t.cod IN Size(D) * Size(D) * Size(D) <= 4 * MaxSize =>
     /\ MatThen(Whisker(D, CapOf(RevSeq(D)), <<>>), Whisker(<<>>, CupT(D), D)) = IdT(D)
     /\ MatThen(Whisker(<<>>, CapOf(D), D), Whisker(D, CupT(RevSeq(D)), <<>>)) = IdT(D)
=============================================================================
