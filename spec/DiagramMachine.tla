--------------------------- MODULE DiagramMachine ---------------------------
(***************************************************************************)
(* One register holding a diagram and the public API of monoidal.Diagram   *)
(* as transitions on it.  A call is a record [op, i, j, g]; ApiRes(d, c)   *)
(* is what the specification says the call returns: [e |-> "" or the name  *)
(* of the exception class, s |-> the resulting diagram].                   *)
(***************************************************************************)
EXTENDS Sums
CONSTANTS Sig,        \* sequence of box records [id, kind, dom, cod, dg]
          Doms,       \* set of types a program may start from
          MaxBoxes, MaxWidth

VARIABLES d, last
vars == <<d, last>>

Lib == Sig \o [k \in 1..Len(Sig) |-> DagBox(Sig[k])]      \* generators and their daggers
Call(op, i, j, g) == [op |-> op, i |-> i, j |-> j, g |-> g]
Ok(s)  == [e |-> "", s |-> s]
Err(n, s) == [e |-> n, s |-> s]

\* python integer index into a sequence of length n (negative counts from the end)
PyIdx(i, n) == IF i < 0 THEN i + n ELSE i

NFRes(dd, left) == LET n == Len(dd.boxes) r == NFAlg(dd, left, 4 + n * n * n) IN
                   IF r.e = "" THEN r ELSE Err("NotImplementedError", dd)

ApiRes(dd, c) ==
  LET n == Len(dd.boxes) IN
  CASE c.op = "gen" ->
         LET b == Lib[c.g] IN
         IF Fits(dd.cod, b, c.i)
         THEN Ok(Then(dd, Diag(dd.cod, After(dd.cod, b, c.i), <<b>>, <<c.i>>)))
         ELSE Err("AxiomError", dd)
    [] c.op = "then"     -> IF Composable(dd, OfBox(Lib[c.g])) THEN Ok(Then(dd, OfBox(Lib[c.g])))
                            ELSE Err("AxiomError", dd)
    [] c.op = "thenSelf" -> IF Composable(dd, dd) THEN Ok(Then(dd, dd)) ELSE Err("AxiomError", dd)
    [] c.op = "tensorR"  -> Ok(Tensor(dd, OfBox(Lib[c.g])))
    [] c.op = "tensorL"  -> Ok(Tensor(OfBox(Lib[c.g]), dd))
    [] c.op = "tensorSelf" -> Ok(Tensor(dd, dd))
    [] c.op = "dagger"   -> Ok(Dagger(dd))
    [] c.op = "slice"    -> Ok(PySlice(dd, c.i, c.j))
    [] c.op = "rslice"   -> Ok(PyRSlice(dd, c.i, c.j))
    [] c.op = "index"    ->
         LET k == PyIdx(c.i, n) IN
         IF k < 0 \/ k >= n THEN Err("IndexError", dd)
         ELSE LET sc == Scans(dd) IN
              Ok(Diag(sc[k + 1], sc[k + 2], <<dd.boxes[k + 1]>>, <<dd.offs[k + 1]>>))
    \* the constructor called with the same boxes and offsets but another codomain (i = 0) or domain (i = 1):
    \* the type of generator g on that side, or the empty type (j = 1); accepted exactly when the reading
    \* of boxes and offsets still goes from the domain to the codomain
    [] c.op = "retype"   ->
         LET ty == IF c.j = 1 THEN <<>> ELSE IF c.i = 0 THEN Lib[c.g].cod ELSE Lib[c.g].dom
             nd == IF c.i = 0 THEN [dd EXCEPT !.cod = ty] ELSE [dd EXCEPT !.dom = ty] IN
         IF WellTyped(nd) THEN Ok(nd) ELSE Err("AxiomError", dd)
    [] c.op = "interchange" -> InterchangeAlg(dd, c.i, c.j, c.g = 1)
    [] c.op = "normal_form" -> NFRes(dd, c.g = 1)
    [] OTHER -> Err("UnknownOp", dd)

InBounds(s) == /\ Len(s.boxes) <= MaxBoxes
               /\ \A k \in 1..Len(Scans(s)) : Len(Scans(s)[k]) <= MaxWidth

\* the calls explored from a state (the replayer uses a superset, including
\* out-of-range arguments; the specification judges those as well)
Menu(dd) ==
  LET n == Len(dd.boxes) IN
       { Call("gen", o, 0, g) : o \in 0..Len(dd.cod), g \in 1..Len(Lib) }
  \cup { Call("then", 0, 0, g) : g \in 1..Len(Lib) }
  \cup { Call("tensorR", 0, 0, g) : g \in 1..Len(Lib) }
  \cup { Call("tensorL", 0, 0, g) : g \in 1..Len(Lib) }
  \cup { Call("thenSelf", 0, 0, 0), Call("tensorSelf", 0, 0, 0), Call("dagger", 0, 0, 0) }
  \cup { Call("slice", i, j, 0) : i \in {None} \cup (-1..n), j \in {None} \cup (-1..n) }
  \cup { Call("index", i, 0, 0) : i \in -1..n }
  \cup { Call("interchange", i, j, l) : i \in 0..(n - 1), j \in 0..(n - 1), l \in 0..1 }
  \cup { Call("normal_form", 0, 0, l) : l \in 0..1 }

Init == /\ d \in { IdD(t) : t \in Doms }
        /\ last = Call("init", 0, 0, 0)
Step(c) == LET r == ApiRes(d, c) IN
           /\ r.e = ""
           /\ InBounds(r.s)
           /\ d' = r.s
           /\ last' = c
Next == \E c \in Menu(d) : Step(c)
Spec == Init /\ [][Next]_vars
View == d

(***************************************************************************)
(* Model-level theorems (checked by TLC on every reachable state).         *)
(***************************************************************************)
InvWellTyped == WellTyped(d)
\* every result the specification assigns to a call is well-typed (C01 for the
\* algorithm-level transcriptions, in particular InterR/InterL and slices)
InvResultsWellTyped == \A c \in Menu(d) : LET r == ApiRes(d, c) IN r.e = "" => WellTyped(r.s)
\* interchange keeps dom, cod and the boxes (C05)
InvInterchange ==
  \A p \in 1..(Len(d.boxes) - 1) : \A r \in Adj(d, p) :
     /\ WellTyped(r) /\ r.dom = d.dom /\ r.cod = d.cod /\ SameBoxes(r, d)
     /\ r.boxes[p] = d.boxes[p + 1] /\ r.boxes[p + 1] = d.boxes[p]
\* C02 laws on the specification's own operators
InvLaws ==
  /\ Dagger(Dagger(d)) = d
  /\ \A k \in 0..Len(d.boxes) : Then(PySlice(d, None, k), PySlice(d, k, None)) = d
  /\ Then(IdD(d.dom), d) = d /\ Then(d, IdD(d.cod)) = d
  /\ Tensor(IdD(<<>>), d) = d /\ Tensor(d, IdD(<<>>)) = d
  /\ Dagger(Then(d, Dagger(d))) = Then(d, Dagger(d))
  /\ Tensor(d, d) = Then(WhiskR(d, d.dom), WhiskL(d.cod, d))
\* C02 for sums: the sums built from the register, its dagger-composite and the
\* generators satisfy the bilinearity laws of Sums.tla
InvSums ==
  LET a == Lift(d) b == SumOf(d.dom, d.cod, <<d, d>>) IN
  /\ Bilinear(a, b, Lift(Dagger(d))) /\ Bilinear(b, a, b) /\ Bilinear(Zero(d.dom, d.cod), b, Lift(Dagger(d)))
  /\ WellFormedSum(SumThen(b, SumDagger(b))) /\ WellFormedSum(SumTensor(b, a))
\* C06: on connected diagrams the normal form exists, is a fixed point and
\* is constant on the interchanger-equivalence class.
InvNormalForm ==
  Connected(d) => \A l \in {TRUE, FALSE} :
     LET r == NFAlg(d, l, 30) IN
     /\ r.e = "" /\ IsNF(r.s, l) /\ NFAlg(r.s, l, 30).s = r.s
     /\ \A p \in 1..(Len(d.boxes) - 1) : \A x \in Adj(d, p) : NFAlg(x, l, 30).s = r.s
=============================================================================
