------------------------------- MODULE Trace_CQ -------------------------------
(***************************************************************************)
(* C12: for every recorded mixed circuit TLC computes exactly the CQ map   *)
(* it must evaluate to (CQ!CQSem), the distribution over its output bits   *)
(* after initialising inputs and discarding qubits (CQ!Counts), and, when  *)
(* the circuit is pure, its pure tensor (Gates!Sem); the harness compares  *)
(* the library's float arrays with the float images (fixed tolerance).     *)
(***************************************************************************)
EXTENDS CQ, Json, IOUtils
PhasesQ == {1}
Expect(t) ==
  [e   |-> CQSem(t.mc).m.a,
   cnt |-> Counts(t.mc).a,
   pure |-> IF AllPure(t.mc) THEN Sem(AsPure(t.mc)).a ELSE <<>>,
   born |-> IF AllPure(t.mc) THEN Counts(MeasureAll(t.mc)).a ELSE <<>>,
   classical |-> AllClassical(t.mc),
   noqubits |-> NoQubits(t.mc),
   mixed |-> SpecIsMixed(t.mc),
   amp |-> HasAmplitudeOnly(t.mc),
   nbits |-> NB(CodTy(t.mc))]
Verdicts == LET TR == ndJsonDeserialize(IOEnv.TRACE_FILE) IN [l \in 1..Len(TR) |-> Expect(TR[l])]
ASSUME ndJsonSerialize(IOEnv.OUT, Verdicts)
TVInit == MInit
TVNext == UNCHANGED <<c, mc>>
=============================================================================
