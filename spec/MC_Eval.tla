------------------------------- MODULE MC_Eval -------------------------------
EXTENDS Eval
Dims23 == <<<<2>>, <<3>>>>
Dims21 == <<<<2>>, <<1>>>>
Dims32 == <<<<3>>, <<2>>>>
\* multi-wire object images: x is sent to Dim(2, 2) (its own mirror image, so cups exist), resp. Dim(2, 3) (cup-free diagrams only)
DimsM22 == <<<<2, 2>>, <<3>>>>
DimsM23 == <<<<2, 3>>, <<2>>>>
=============================================================================
