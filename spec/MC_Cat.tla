-------------------------------- MODULE MC_Cat --------------------------------
(* DiagramMachine instantiated at the signature of the free category (C01, C02 for cat.Arrow):
   with MaxWidth = 1 only composition, dagger, slicing and indexing change the register. *)
EXTENDS SigCat, Json, IOUtils
CONSTANTS MaxBoxes, MaxWidth
VARIABLES d, last
INSTANCE DiagramMachine WITH Sig <- SigC, Doms <- DomsC
ASSUME JsonSerialize(IOEnv.LIB_OUT, Lib)
=============================================================================
