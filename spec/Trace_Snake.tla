----------------------------- MODULE Trace_Snake -----------------------------
(***************************************************************************)
(* Trace validation for C07.  One line = one rigid diagram t.d and what    *)
(* the real library did with it:                                           *)
(*   steps : the diagrams yielded by rigid.Diagram.normalize() (projected  *)
(*           with their layer view), exc its exception ("" / "Truncated"), *)
(*   nf, nfexc : the value / exception of normal_form().                   *)
(* Verdict <<clause, position>>.                                           *)
(***************************************************************************)
EXTENDS Snake, Json, IOUtils

AsDiag(o) == Diag(o.dom, o.cod, o.boxes, o.offs)
StepClause(prev, cur, t) ==
  IF FirstFailing(cur) # "ok" THEN FirstFailing(cur)
  ELSE IF cur.dom # t.d.dom \/ cur.cod # t.d.cod THEN "step-changes-domain-or-codomain"
  ELSE IF StepIsInterchange(prev, AsDiag(cur)) THEN "ok"
  ELSE IF StepIsYank(prev, AsDiag(cur)) THEN "ok"
  ELSE IF \E p \in 1..(Len(prev.boxes) - 1) : AsDiag(cur) = YankRes(prev, p)
       THEN "removed-pair-is-not-a-snake"
  ELSE "step-is-neither-interchange-nor-yank"

J07(t) ==
  LET n   == Len(t.steps)
      seq == <<t.d>> \o [s \in 1..n |-> AsDiag(t.steps[s])]
      bad == { s \in 1..n : StepClause(seq[s], t.steps[s], t) # "ok" } IN
  IF ~WellTyped(t.d) THEN <<"input-ill-typed", 0>>
  ELSE IF bad # {} THEN LET s == CHOOSE s \in bad : \A u \in bad : s <= u IN
                        <<StepClause(seq[s], t.steps[s], t), s>>
  ELSE IF t.exc \notin {"", "Truncated"} THEN <<"normalize-raises-on-well-typed-input", n>>
  ELSE IF t.exc = "Truncated" /\ Connected(t.d) THEN <<"connected-diagram-does-not-terminate", n>>
  ELSE IF t.nfexc = "NotImplementedError" THEN
       (IF Connected(t.d) THEN <<"connected-diagram-refused", 0>> ELSE <<"ok", 0>>)
  ELSE IF t.nfexc # "" THEN <<"normal-form-raises-on-well-typed-input", 0>>
  ELSE IF FirstFailing(t.nf) # "ok" THEN <<FirstFailing(t.nf), 0>>
  ELSE IF t.nf.dom # t.d.dom \/ t.nf.cod # t.d.cod THEN <<"normal-form-changes-domain-or-codomain", 0>>
  ELSE IF HasSnake(AsDiag(t.nf)) THEN <<"normal-form-still-has-a-snake", 0>>
  ELSE IF t.exc = "" /\ AsDiag(t.nf) # seq[n + 1] THEN <<"normal-form-is-not-the-last-step", 0>>
  ELSE <<"ok", 0>>

\* algorithm level: the snake-removal phase ends in the diagram the transcription computes
JDrift(t) ==
  LET r == RemoveAll(OKr(t.d), 8) IN
  IF r.e # "" THEN <<"drift-model-error", 0>>
  ELSE IF t.exc = "" /\ ~(\E s \in 1..Len(t.steps) : AsDiag(t.steps[s]) = r.s) /\ r.s # t.d
       THEN <<"drift-snake-free-diagram-not-among-steps", 0>>
  ELSE <<"ok", 0>>

Verdicts == LET T == ndJsonDeserialize(IOEnv.TRACE_FILE) IN
  [l \in 1..Len(T) |-> [v |-> IF IOEnv.JUDGE = "JDrift" THEN JDrift(T[l]) ELSE J07(T[l])]]
ASSUME ndJsonSerialize(IOEnv.OUT, Verdicts)
TVInit == d = IdD(<<>>)
TVNext == UNCHANGED d
=============================================================================
