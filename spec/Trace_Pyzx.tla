------------------------------ MODULE Trace_Pyzx ------------------------------
(***************************************************************************)
(* Trace validation for C17.                                               *)
(*  kind "to"   : a ZX diagram t.zx and the projected pyzx graph t.g that   *)
(*                the real to_pyzx returned.  Output also carries the exact *)
(*                GraphSem(t.g) so that the harness can cross-check the     *)
(*                specification's graph semantics against pyzx.tensorfy.    *)
(*  kind "from" : a graph t.g handed to the real from_pyzx (t.bad names a   *)
(*                deliberately ill-formed boundary declaration), the        *)
(*                projected diagram t.zx it returned, t.exc.                *)
(***************************************************************************)
EXTENDS Pyzx, Json, IOUtils
PhasesQ == {1}
NoScalar(g) == [g EXCEPT !.sc = [re |-> 1, im |-> 0, s |-> 0]]
J17(t) ==
  IF t.kind = "to" THEN
     IF ~SimpleWiring(t.zx) THEN "ok"                                  \* not claimed
     ELSE IF t.exc # "" THEN "export-raised"
     ELSE IF Len(t.g.ins) # t.zx.dom \/ Len(t.g.outs) # ZXCod(t.zx) THEN "wrong-number-of-inputs-or-outputs"
     ELSE IF GraphSem(t.g) = ZXSem(t.zx) THEN "ok" ELSE "graph-does-not-denote-the-diagram"
  ELSE
     IF t.bad # "" THEN (IF t.exc = "ValueError" THEN "ok" ELSE "ill-formed-boundary-not-refused")
     ELSE IF t.exc # "" THEN "import-raised"
     ELSE IF t.zx.dom # Len(t.g.ins) \/ ZXCod(t.zx) # Len(t.g.outs) THEN "wrong-number-of-inputs-or-outputs"
     ELSE IF ZXSem(t.zx) = GraphSem1(t.g) THEN "ok" ELSE "imported-diagram-does-not-denote-the-graph"
Out(t) == [v |-> <<J17(t)>>, e |-> IF t.kind = "to" /\ t.exc = "" THEN GraphSem(t.g).a ELSE <<>>]
JDrift(t) == IF t.kind = "to" /\ t.exc = "" /\ SimpleWiring(t.zx) THEN
                LET a == ToPyzxAlg(t.zx) IN
                (IF a.vs = t.g.vs /\ a.ins = t.g.ins /\ a.outs = t.g.outs /\ { a.es[k] : k \in 1..Len(a.es) } = { t.g.es[k] : k \in 1..Len(t.g.es) }
                 THEN "ok" ELSE "drift-graph")
             ELSE "ok"
Verdicts == LET TR == ndJsonDeserialize(IOEnv.TRACE_FILE) IN
  [l \in 1..Len(TR) |-> IF IOEnv.JUDGE = "JDrift" THEN [v |-> <<JDrift(TR[l])>>, e |-> <<>>] ELSE Out(TR[l])]
ASSUME ndJsonSerialize(IOEnv.OUT, Verdicts)
TVInit == ZInit
TVNext == UNCHANGED <<c, zd>>
=============================================================================
