------------------------------ MODULE MC_Rigid ------------------------------
(* DiagramMachine instantiated at the rigid signature (C01, C02 for rigid diagrams). *)
EXTENDS SigRigid, Json, IOUtils
CONSTANTS MaxBoxes, MaxWidth
VARIABLES d, last
INSTANCE DiagramMachine WITH Sig <- SigR, Doms <- DomsR
ASSUME JsonSerialize(IOEnv.LIB_OUT, Lib)
=============================================================================
