-------------------------------- MODULE SigCat --------------------------------
(* Signature of the free category (cat.Arrow): objects x, y, z as one-atom   *)
(* types, boxes as edges of a small graph with a loop, a two-cycle and a     *)
(* dead end.  An arrow is a diagram all of whose types have length one and   *)
(* all of whose offsets are zero, so Diagrams!WellTyped is exactly "the      *)
(* boxes compose from dom to cod".                                           *)
EXTENDS Naturals, Sequences
x == <<1, 0>>
y == <<2, 0>>
z == <<3, 0>>
B(id, dm, cd) == [id |-> id, kind |-> 0, dom |-> dm, cod |-> cd, dg |-> 0]
SigC == << B(1, <<x>>, <<y>>), B(2, <<y>>, <<x>>), B(3, <<y>>, <<z>>), B(4, <<x>>, <<x>>) >>
DomsC == { <<x>>, <<y>>, <<z>> }
=============================================================================
