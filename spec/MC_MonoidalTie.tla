--------------------------- MODULE MC_MonoidalTie ---------------------------
EXTENDS SigTie, Json, IOUtils
CONSTANTS MaxBoxes, MaxWidth
VARIABLES d, last
INSTANCE DiagramMachine WITH Sig <- SigT, Doms <- DomsT
ASSUME JsonSerialize(IOEnv.LIB_OUT, Lib)
=============================================================================
