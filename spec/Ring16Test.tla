---- MODULE Ring16Test ----
EXTENDS Ring16
S2v == Sub(W(2), W(6))
ASSUME PrintT(<<"sqrt2^2", Mul(S2v, S2v), "i^2", Mul(RI, RI), "invs2*s2", Mul(InvS2, S2v)>>)
ASSUME Mul(S2v, S2v) = FromInt(2)
ASSUME Mul(RI, RI) = FromInt(0 - 1)
ASSUME Mul(InvS2, S2v) = ROne
ASSUME \A m \in 0..15 : Add(Mul(Cos8(m), Cos8(m)), Mul(Sin8(m), Sin8(m))) = ROne
ASSUME \A m \in 0..15 : Add(Cos8(m), Mul(RI, Sin8(m))) = W(m)
ASSUME Cos8(2) = InvS2 /\ Sin8(4) = ROne /\ Cos8(8) = FromInt(0 - 1)
ASSUME \A m \in 0..15 : Mul(W(m), Conj(W(m))) = ROne
ASSUME Add(InvS2, InvS2) = S2v
ASSUME Half(FromInt(2)) = ROne
VARIABLE x
Init == x = 0
Next == x' = x
====
