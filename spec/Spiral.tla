-------------------------------- MODULE Spiral --------------------------------
(***************************************************************************)
(* The spiral diagrams of arXiv:1804.07832 (worst case of normalisation:   *)
(* the right normal form of the n-cup spiral needs a cubic number of       *)
(* interchanges) and the exploration of their interchanger classes.        *)
(* States: every diagram reachable from a spiral by admissible exchanges.  *)
(***************************************************************************)
EXTENDS Diagrams
CONSTANT MaxCups
xx == <<1, 0>>
Pow(n) == [k \in 1..n |-> xx]
SBox(id, a, c) == [id |-> id, kind |-> 0, dom |-> Pow(a), cod |-> Pow(c), dg |-> 0]
Unit == SBox(11, 0, 1)
Counit == SBox(12, 1, 0)
CupB == SBox(13, 2, 0)
CapB == SBox(14, 0, 2)
Spiral(n) ==
  Diag(<<>>, <<>>,
       <<Unit>> \o [i \in 1..n |-> CapB] \o <<Counit>> \o [i \in 1..n |-> CupB],
       <<0>> \o [i \in 1..n |-> i - 1] \o <<n>> \o [i \in 1..n |-> n - i])
VARIABLE d
Init == d \in { Spiral(n) : n \in 1..MaxCups }
Next == \E p \in 1..(Len(d.boxes) - 1) : d' \in Adj(d, p)
Spec == Init /\ [][Next]_d
N == (Len(d.boxes) - 2) \div 2
InvWellTyped == WellTyped(d)
InvConnected == Connected(d)
\* canonicity on the whole class: the normal form of every member is the spiral's
InvCanonical == \A l \in {TRUE, FALSE} :
   LET r == NFAlg(d, l, 300) IN r.e = "" /\ r.s = NFAlg(Spiral(N), l, 300).s
=============================================================================
