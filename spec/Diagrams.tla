------------------------------ MODULE Diagrams ------------------------------
(***************************************************************************)
(* Abstract string diagrams of a free monoidal category, as DisCoPy stores *)
(* them: a domain, a codomain, a list of boxes and a list of offsets.      *)
(*                                                                         *)
(* A type is a sequence of atoms (any TLA+ values compared with =).        *)
(* A box is a record with at least the fields dom, cod (types); all other  *)
(* fields (id, kind, dg, ...) are carried along untouched.                 *)
(* A diagram is a record [dom, cod, boxes, offs].                          *)
(*                                                                         *)
(* Partial operators return records [e |-> "" | error-name, s |-> value],  *)
(* because TLC cannot compare a string with a sequence.                    *)
(***************************************************************************)
EXTENDS Naturals, Integers, Sequences, FiniteSets, TLC

Slice(s, a, b) == SubSeq(s, a + 1, b)          \* python s[a:b], 0 <= a, b <= Len(s)
Min2(a, b) == IF a < b THEN a ELSE b
Max2(a, b) == IF a > b THEN a ELSE b

Diag(dm, cd, bs, os) == [dom |-> dm, cod |-> cd, boxes |-> bs, offs |-> os]
IdD(t) == Diag(t, t, <<>>, <<>>)
OfBox(b) == Diag(b.dom, b.cod, <<b>>, <<0>>)
NBoxes(d) == Len(d.boxes)

(***************************************************************************)
(* Reading a diagram from its domain: Fits(t, b, o) says box b finds its   *)
(* domain at offset o of the type t; After gives the type below the box.   *)
(***************************************************************************)
Fits(t, b, o) == /\ o >= 0
                 /\ o + Len(b.dom) <= Len(t)
                 /\ Slice(t, o, o + Len(b.dom)) = b.dom
After(t, b, o) == Slice(t, 0, o) \o b.cod \o Slice(t, o + Len(b.dom), Len(t))

\* Scans(d)[k+1] = the open wires after the first k boxes; the sequence stops
\* at the first box that does not fit.
RECURSIVE ScansFrom(_, _, _, _, _)
ScansFrom(t, bs, os, k, acc) ==
  IF k > Len(bs) THEN acc
  ELSE IF ~Fits(t, bs[k], os[k]) THEN acc
  ELSE LET t2 == After(t, bs[k], os[k]) IN ScansFrom(t2, bs, os, k + 1, Append(acc, t2))
Scans(d) == ScansFrom(d.dom, d.boxes, d.offs, 1, <<d.dom>>)

WellTyped(d) == /\ Len(d.offs) = Len(d.boxes)
                /\ LET sc == Scans(d) IN /\ Len(sc) = Len(d.boxes) + 1
                                         /\ sc[Len(sc)] = d.cod

\* The layer view that belongs to a well-typed diagram.
LayersOf(d) == LET sc == Scans(d) IN
  [k \in 1..Len(d.boxes) |->
     [left  |-> Slice(sc[k], 0, d.offs[k]),
      box   |-> d.boxes[k],
      right |-> Slice(sc[k], d.offs[k] + Len(d.boxes[k].dom), Len(sc[k]))]]

(***************************************************************************)
(* Name of the first clause of "well-typed with an agreeing layer view"    *)
(* that fails for an observed diagram o = [dom, cod, boxes, offs, ldom,    *)
(* lcod, layers] (layers = what the library's .layers holds), "ok" if none.*)
(***************************************************************************)
FirstFailing(o) ==
  LET n  == Len(o.boxes)
      d  == Diag(o.dom, o.cod, o.boxes, o.offs)
      sc == Scans(d) IN
  IF Len(o.offs) # n THEN "len-offsets"
  ELSE IF Len(sc) # n + 1 THEN "box-dom-at-offset"
  ELSE IF sc[n + 1] # o.cod THEN "scan-reaches-cod"
  ELSE IF Len(o.layers) # n THEN "layers-length"
  ELSE IF o.ldom # o.dom \/ o.lcod # o.cod THEN "layers-dom-cod"
  ELSE IF \E k \in 1..n : o.layers[k].left # Slice(sc[k], 0, o.offs[k]) THEN "layer-left"
  ELSE IF \E k \in 1..n : o.layers[k].right #
                 Slice(sc[k], o.offs[k] + Len(o.boxes[k].dom), Len(sc[k])) THEN "layer-right"
  ELSE IF \E k \in 1..n : o.layers[k].bdom # o.boxes[k].dom \/ o.layers[k].bcod # o.boxes[k].cod
       THEN "layer-box"
  ELSE "ok"

(***************************************************************************)
(* The operations of a strict dagger monoidal category, defined from the   *)
(* statement (C02): composition concatenates, tensor is the left-to-right  *)
(* whiskered composite, dagger reverses and daggers the boxes.             *)
(***************************************************************************)
Then(a, b) == Diag(a.dom, b.cod, a.boxes \o b.boxes, a.offs \o b.offs)
Composable(a, b) == a.cod = b.dom

\* a (x) t  and  t (x) a  for a type t
WhiskR(a, t) == Diag(a.dom \o t, a.cod \o t, a.boxes, a.offs)
WhiskL(t, a) == Diag(t \o a.dom, t \o a.cod, a.boxes,
                     [k \in 1..Len(a.offs) |-> a.offs[k] + Len(t)])
Tensor(a, b) == Then(WhiskR(a, b.dom), WhiskL(a.cod, b))

\* dagger of a box: swap dom/cod and flip the dagger flag (field dg in 0..1)
\* (structural boxes are closed under dagger: the dagger of a swap is the opposite swap,
\*  of a cup the cap on the same pair of atoms and vice versa; their flag stays 0)
DagBox(b) == IF b.kind = 0 THEN [b EXCEPT !.dom = b.cod, !.cod = b.dom, !.dg = 1 - b.dg]
             ELSE [b EXCEPT !.dom = b.cod, !.cod = b.dom,
                            !.kind = IF b.kind = 2 THEN 3 ELSE IF b.kind = 3 THEN 2 ELSE b.kind]
Rev(s) == [k \in 1..Len(s) |-> s[Len(s) + 1 - k]]
Dagger(d) == Diag(d.cod, d.dom, Rev([k \in 1..Len(d.boxes) |-> DagBox(d.boxes[k])]), Rev(d.offs))

\* python slice bounds (step 1) for a sequence of length n; i, j integers
\* or the marker None (= omitted bound)
None == -1000
PyLo(i, n) == IF i = None THEN 0 ELSE IF i < 0 THEN Max2(i + n, 0) ELSE Min2(i, n)
PyHi(j, n) == IF j = None THEN n ELSE IF j < 0 THEN Max2(j + n, 0) ELSE Min2(j, n)
\* d[i:j] : the boxes lo+1..hi between the scans at lo and hi (empty slices are
\* the identity on the wires open at lo)
PySlice(d, i, j) ==
  LET n == Len(d.boxes) lo == PyLo(i, n) hi0 == PyHi(j, n)
      hi == Max2(lo, hi0) sc == Scans(d) IN
  Diag(sc[lo + 1], sc[hi + 1], Slice(d.boxes, lo, hi), Slice(d.offs, lo, hi))

\* d[i:j:-1] : python's reversed slice selects the boxes  stop < k <= start  (0-based, after normalising the bounds);
\* its value is the dagger of the forward sub-diagram they form; an empty selection is the identity on the wires open
\* just after the (normalised) start
RevBound(i, n, dflt) == IF i = None THEN dflt
                        ELSE LET a == IF i < 0 THEN i + n ELSE i IN IF a < 0 THEN 0 - 1 ELSE IF a >= n THEN n - 1 ELSE a
PyRSlice(d, i, j) ==
  LET n == Len(d.boxes) st == RevBound(i, n, n - 1) sp == RevBound(j, n, 0 - 1) IN
  IF st <= sp THEN IdD(Scans(d)[Min2(Max2(st + 1, 0), n) + 1])
  ELSE Dagger(PySlice(d, sp + 1, st + 1))

(***************************************************************************)
(* Interchange (C05).  Boxes p, p+1 (1-based) can be exchanged when the    *)
(* lower one lies entirely to one side of the upper one:                   *)
(*   RightMove: the upper box is to the right of the lower box's domain;   *)
(*   LeftMove : the lower box is to the right of the upper box's codomain. *)
(* The result keeps both boxes; the one offset that changes is forced by   *)
(* well-typedness.                                                         *)
(***************************************************************************)
RightMove(d, p) == d.offs[p] >= d.offs[p + 1] + Len(d.boxes[p + 1].dom)
LeftMove(d, p)  == d.offs[p + 1] >= d.offs[p] + Len(d.boxes[p].cod)
InterR(d, p) ==
  LET b0 == d.boxes[p] b1 == d.boxes[p + 1] IN
  [d EXCEPT !.boxes = [d.boxes EXCEPT ![p] = b1, ![p + 1] = b0],
            !.offs  = [d.offs EXCEPT ![p] = d.offs[p + 1],
                                     ![p + 1] = d.offs[p] - Len(b1.dom) + Len(b1.cod)]]
InterL(d, p) ==
  LET b0 == d.boxes[p] b1 == d.boxes[p + 1] IN
  [d EXCEPT !.boxes = [d.boxes EXCEPT ![p] = b1, ![p + 1] = b0],
            !.offs  = [d.offs EXCEPT ![p] = d.offs[p + 1] - Len(b0.cod) + Len(b0.dom),
                                     ![p + 1] = d.offs[p]]]
\* admissible results of exchanging boxes p, p+1
Adj(d, p) == (IF RightMove(d, p) THEN {InterR(d, p)} ELSE {})
        \cup (IF LeftMove(d, p)  THEN {InterL(d, p)} ELSE {})
\* what the library does for adjacent indices (algorithm level): preference
\* `left` first tries the left move, then right, then left.
InterAlg(d, p, left) ==
  IF left /\ LeftMove(d, p) THEN [e |-> "", s |-> InterL(d, p)]
  ELSE IF RightMove(d, p) THEN [e |-> "", s |-> InterR(d, p)]
  ELSE IF LeftMove(d, p) THEN [e |-> "", s |-> InterL(d, p)]
  ELSE [e |-> "InterchangerError", s |-> d]

\* Moving the box at position p to position q by adjacent exchanges:
\* <<set of diagrams reachable by admissible choices, TRUE iff some such
\*   sequence of choices meets an inadmissible pair>>
RECURSIVE Move(_, _, _, _)
Move(S, blk, p, q) ==
  IF p = q \/ S = {} THEN <<S, blk>>
  ELSE LET pp == IF p < q THEN p ELSE p - 1
           b2 == blk \/ \E d \in S : Adj(d, pp) = {}
       IN Move(UNION { Adj(d, pp) : d \in S }, b2, IF p < q THEN p + 1 ELSE p - 1, q)

\* the library's deterministic multi-step interchange(i, j, left), 0-based i, j
RECURSIVE MoveAlg(_, _, _, _)
MoveAlg(d, p, q, left) ==
  IF p = q THEN [e |-> "", s |-> d]
  ELSE LET pp == IF p < q THEN p ELSE p - 1
           r  == InterAlg(d, pp, left) IN
       IF r.e # "" THEN r ELSE MoveAlg(r.s, IF p < q THEN p + 1 ELSE p - 1, q, left)
InterchangeAlg(d, i, j, left) ==
  LET n == Len(d.boxes) IN
  IF ~(0 <= i /\ i < n /\ 0 <= j /\ j < n) THEN [e |-> "IndexError", s |-> d]
  ELSE MoveAlg(d, i + 1, j + 1, left)

(***************************************************************************)
(* Connectedness: boxes are connected when they share a wire (boundary     *)
(* wires do not connect).  prod[w] = index of the box that produced wire w *)
(* of the current scan, 0 for an input wire.                               *)
(***************************************************************************)
RECURSIVE Edges(_, _, _, _)
Edges(prod, d, k, acc) ==
  IF k > Len(d.boxes) THEN acc ELSE
  LET b == d.boxes[k]  off == d.offs[k]
      ins   == { prod[off + j] : j \in 1..Len(b.dom) } \ {0}
      prod2 == Slice(prod, 0, off) \o [j \in 1..Len(b.cod) |-> k]
               \o Slice(prod, off + Len(b.dom), Len(prod))
  IN Edges(prod2, d, k + 1, acc \cup { <<p, k>> : p \in ins })
WireEdges(d) == Edges([j \in 1..Len(d.dom) |-> 0], d, 1, {})
RECURSIVE Reach(_, _)
Reach(S, E) == LET S2 == S \cup { e[2] : e \in { e \in E : e[1] \in S } }
                            \cup { e[1] : e \in { e \in E : e[2] \in S } }
               IN IF S2 = S THEN S ELSE Reach(S2, E)
Connected(d) == Len(d.boxes) <= 1 \/ Reach({1}, WireEdges(d)) = 1..Len(d.boxes)

\* the longest chain of boxes joined by wires (a lower bound for the depth of any foliation)
RECURSIVE ChainTo(_, _)
ChainTo(E, k) == LET preds == { e[1] : e \in { e \in E : e[2] = k } } IN
                 IF preds = {} THEN 1
                 ELSE 1 + ChainTo(E, CHOOSE p \in preds : \A q \in preds : ChainTo(E, p) >= ChainTo(E, q))
LongestChain(d) == IF Len(d.boxes) = 0 THEN 0
                   ELSE LET E == WireEdges(d) k == CHOOSE k \in 1..Len(d.boxes) : \A j \in 1..Len(d.boxes) : ChainTo(E, k) >= ChainTo(E, j)
                        IN ChainTo(E, k)

\* same boxes as a multiset
Count(bs, b) == Cardinality({ k \in 1..Len(bs) : bs[k] = b })
SameBoxes(a, b) == /\ Len(a.boxes) = Len(b.boxes)
                   /\ \A k \in 1..Len(a.boxes) : Count(a.boxes, a.boxes[k]) = Count(b.boxes, a.boxes[k])

(***************************************************************************)
(* Normal forms (C06): one sweep of the library's normalize() applies the  *)
(* preferred move at positions 1..n-1 in order on the diagram as it is     *)
(* being rewritten; sweeps repeat until one makes no move.  Fuelled.       *)
(***************************************************************************)
MoveOK(d, p, left) == IF left THEN LeftMove(d, p) ELSE RightMove(d, p)
MoveDo(d, p, left) == IF left THEN InterL(d, p) ELSE InterR(d, p)
RECURSIVE Sweep(_, _, _, _)
\* <<diagram after the sweep from position p on, number of moves made>>
Sweep(d, p, left, cnt) ==
  IF p > Len(d.boxes) - 1 THEN <<d, cnt>>
  ELSE IF MoveOK(d, p, left) THEN Sweep(MoveDo(d, p, left), p + 1, left, cnt + 1)
  ELSE Sweep(d, p + 1, left, cnt)
RECURSIVE NFAlg(_, _, _)
NFAlg(d, left, fuel) ==
  IF fuel = 0 THEN [e |-> "NoFuel", s |-> d]
  ELSE LET r == Sweep(d, 1, left, 0) IN
       IF r[2] = 0 THEN [e |-> "", s |-> d] ELSE NFAlg(r[1], left, fuel - 1)
IsNF(d, left) == \A p \in 1..(Len(d.boxes) - 1) : ~MoveOK(d, p, left)

\* the interchanger-equivalence class of d (closure under admissible exchanges)
RECURSIVE ClassOf(_, _)
ClassOf(S, frontier) ==
  IF frontier = {} THEN S
  ELSE LET new == UNION { UNION { Adj(d, p) : p \in 1..(Len(d.boxes) - 1) } : d \in frontier } \ S
       IN ClassOf(S \cup new, new)
Class(d) == ClassOf({d}, {d})
=============================================================================
