--------------------------------- MODULE Eval ---------------------------------
(***************************************************************************)
(* Evaluating a diagram computes its compositional meaning (C09).          *)
(* An interpretation assigns a dimension to every atom name (winding       *)
(* numbers are ignored: dimensions are self-dual) and a generic Gaussian-  *)
(* integer array to every box name.  The meaning of a diagram is the       *)
(* layer-by-layer composite                                                *)
(*      M_0 = Id(dom),  M_k = M_(k-1) ; (Id(left) (x) [box_k] (x) Id(right))*)
(* with swaps, cups, caps and daggered boxes interpreted by their defining *)
(* tensors (Mat.tla).  The evaluation machine's state after k boxes is     *)
(* M_k; the library's single-pass contraction must produce the same        *)
(* tensor for every prefix.                                                *)
(***************************************************************************)
EXTENDS GaussMat, Diagrams
CONSTANT DimOf      \* sequence: DimOf[n] = the Dim (sequence of dimensions) the atom named n is sent to, whatever its winding
RECURSIVE FlatDims(_)
FlatDims(t) == IF t = <<>> THEN <<>> ELSE DimOf[t[1][1]] \o FlatDims(Tail(t))
TyDims(t) == Norm1(FlatDims(t))
\* the object map ignores windings, so the image of x.r is the image of x: cups and caps exist only on atoms whose
\* image is its own mirror image (Dim(2, 3) has no cup with itself - the library refuses it)
Palindrome(D) == D = RevSeq(D)
CupsDefined(dd) == \A k \in 1..Len(dd.boxes) :
   /\ dd.boxes[k].kind = 2 => Palindrome(TyDims(<<dd.boxes[k].dom[1]>>))
   /\ dd.boxes[k].kind = 3 => Palindrome(TyDims(<<dd.boxes[k].cod[1]>>))
\* generic array of box number s: entries depend on row, column and s; not symmetric
Gen(s, dm, cd) == T(dm, cd, LAMBDA r, c : <<1 + 2 * r + 3 * c + 7 * s + ((r * c + s) % 5), r - 2 * c + s>>)
BoxT(b) ==
  CASE b.kind = 1 -> SwapT(TyDims(<<b.dom[1]>>), TyDims(<<b.dom[2]>>))
    [] b.kind = 2 -> CupT(TyDims(<<b.dom[1]>>))
    [] b.kind = 3 -> CapOf(TyDims(<<b.cod[1]>>))
    [] OTHER -> IF b.dg = 1 THEN ConjT(Gen(b.id, TyDims(b.cod), TyDims(b.dom)))
                ELSE Gen(b.id, TyDims(b.dom), TyDims(b.cod))
LayerT(sc, b, o) == Whisker(TyDims(Slice(sc, 0, o)), BoxT(b), TyDims(Slice(sc, o + Len(b.dom), Len(sc))))
RECURSIVE EvalTo(_, _, _, _)
\* M_k from M_j (j < = k)
EvalTo(dd, M, j, k) == IF j >= k THEN M
                       ELSE EvalTo(dd, TLCEval(MatThen(M, LayerT(Scans(dd)[j + 1], dd.boxes[j + 1], dd.offs[j + 1]))), j + 1, k)
EvalPrefix(dd, k) == EvalTo(dd, IdT(TyDims(dd.dom)), 0, k)
EvalD(dd) == EvalPrefix(dd, Len(dd.boxes))
\* the same diagram with integer-valued boxes (the real parts of the generic arrays): what a diagram of boxes
\* holding integer arrays denotes
GenRe(s, dm, cd) == T(dm, cd, LAMBDA r, c : <<1 + 2 * r + 3 * c + 7 * s + ((r * c + s) % 5), 0>>)
BoxTRe(b) ==
  CASE b.kind = 1 -> SwapT(TyDims(<<b.dom[1]>>), TyDims(<<b.dom[2]>>))
    [] b.kind = 2 -> CupT(TyDims(<<b.dom[1]>>))
    [] b.kind = 3 -> CapOf(TyDims(<<b.cod[1]>>))
    [] OTHER -> IF b.dg = 1 THEN ConjT(GenRe(b.id, TyDims(b.cod), TyDims(b.dom)))
                ELSE GenRe(b.id, TyDims(b.dom), TyDims(b.cod))
RECURSIVE EvalToRe(_, _, _, _)
EvalToRe(dd, M, j, k) ==
  IF j >= k THEN M
  ELSE LET sc == Scans(dd)[j + 1] b == dd.boxes[j + 1] o == dd.offs[j + 1] IN
       EvalToRe(dd, TLCEval(MatThen(M, Whisker(TyDims(Slice(sc, 0, o)), BoxTRe(b), TyDims(Slice(sc, o + Len(b.dom), Len(sc)))))), j + 1, k)
EvalDRe(dd) == EvalToRe(dd, IdT(TyDims(dd.dom)), 0, Len(dd.boxes))

(***************************************************************************)
(* Exhaustive model: rigid diagrams over a small signature with boxes,     *)
(* daggered boxes, swaps, cups and caps.  Model-level theorems: every      *)
(* admissible interchange and every snake yank preserves the meaning.      *)
(***************************************************************************)
CONSTANTS MaxBoxes, MaxWidth, MaxCC
VARIABLE d
X(z) == <<1, z>>
Y == <<2, 0>>
PB(id, dm, cd) == [id |-> id, kind |-> 0, dom |-> dm, cod |-> cd, dg |-> 0]
Plain == { PB(1, <<X(0)>>, <<Y>>), PB(2, <<Y>>, <<X(0), X(0)>>), PB(3, <<X(0), Y>>, <<X(0)>>),
           PB(4, <<>>, <<X(0)>>), PB(5, <<Y>>, <<>>), PB(6, <<>>, <<>>), PB(7, <<X(1)>>, <<X(1)>>) }
Structural ==
     { [id |-> 0, kind |-> 1, dom |-> <<p[1], p[2]>>, cod |-> <<p[2], p[1]>>, dg |-> 0] :
          p \in { <<X(0), Y>>, <<Y, X(0)>>, <<X(0), X(0)>>, <<X(1), X(0)>> } }
\cup { [id |-> 0, kind |-> 2, dom |-> p, cod |-> <<>>, dg |-> 0] :
          p \in { <<X(0), X(1)>>, <<X(-1), X(0)>>, <<X(1), X(0)>> } }
\cup { [id |-> 0, kind |-> 3, dom |-> <<>>, cod |-> p, dg |-> 0] :
          p \in { <<X(1), X(0)>>, <<X(0), X(-1)>>, <<X(0), X(1)>> } }
Shapes == Plain \cup { DagBox(b) : b \in Plain } \cup Structural
Doms == { <<>>, <<X(0)>>, <<Y>>, <<X(0), Y>>, <<X(1)>> }
NCC(dd) == Cardinality({ k \in 1..Len(dd.boxes) : dd.boxes[k].kind # 0 })
Init == d \in { IdD(t) : t \in Doms }
Build == /\ Len(d.boxes) < MaxBoxes
         /\ \E b \in Shapes, o \in 0..Len(d.cod) :
              /\ Fits(d.cod, b, o) /\ Len(After(d.cod, b, o)) <= MaxWidth
              /\ (b.kind # 0 => NCC(d) < MaxCC)
              /\ d' = Then(d, Diag(d.cod, After(d.cod, b, o), <<b>>, <<o>>))
Spec == Init /\ [][Build]_d

InvShape == LET M == EvalD(d) IN M.dom = TyDims(d.dom) /\ M.cod = TyDims(d.cod)
InvInterchangeSound == \A p \in 1..(Len(d.boxes) - 1) : \A r \in Adj(d, p) : EvalD(r) = EvalD(d)
\* a yank (snake equation) preserves the meaning
IsCupB(b) == b.kind = 2
IsCapB(b) == b.kind = 3
YankOK(dd, p) ==
  /\ p >= 1 /\ p + 1 <= Len(dd.boxes) /\ IsCapB(dd.boxes[p]) /\ IsCupB(dd.boxes[p + 1])
  /\ \/ dd.offs[p + 1] + 1 = dd.offs[p] /\ dd.boxes[p].cod[2] = dd.boxes[p + 1].dom[1]
     \/ dd.offs[p + 1] = dd.offs[p] + 1 /\ dd.boxes[p].cod[1] = dd.boxes[p + 1].dom[2]
YankRes(dd, p) == [dd EXCEPT !.boxes = SubSeq(dd.boxes, 1, p - 1) \o SubSeq(dd.boxes, p + 2, Len(dd.boxes)),
                             !.offs  = SubSeq(dd.offs, 1, p - 1) \o SubSeq(dd.offs, p + 2, Len(dd.offs))]
InvYankSound == \A p \in 1..(Len(d.boxes) - 1) : YankOK(d, p) => EvalD(YankRes(d, p)) = EvalD(d)
=============================================================================
