----------------------------- MODULE MC_Biclosed -----------------------------
(***************************************************************************)
(* Generator of biclosed rule instances (C18): every application,          *)
(* composition and crossed composition box over slash types with composite *)
(* (length-2) left and right sides, and curried plain boxes.  Each state   *)
(* is one instance; the invariant is the typing discipline of the rules    *)
(* under ToRigid (a sanity check of the object map: images of adjoint      *)
(* slash types are adjoint-shaped).                                        *)
(***************************************************************************)
EXTENDS Grammar
CONSTANT Depth     \* 0: sides are atoms or pairs of atoms; 1: sides may be slash types of those
Atom(n) == [k |-> "atom", n |-> n]
Over(l, r) == [k |-> "over", l |-> l, r |-> r]
Under(l, r) == [k |-> "under", l |-> l, r |-> r]
A == {1, 2}
\* sides of slash types: the empty type, atoms and pairs of atoms
T0 == { <<>> } \cup { <<Atom(a)>> : a \in A } \cup { <<Atom(a), Atom(b)>> : a \in A, b \in A }
I1 == { Over(l, r) : l \in T0, r \in T0 } \cup { Under(l, r) : l \in T0, r \in T0 }
S1 == T0 \cup { <<i>> : i \in I1 }
Sm == T0 \cup { <<Over(<<Atom(1)>>, <<Atom(2)>>)>>, <<Under(<<Atom(1), Atom(2)>>, <<Atom(2)>>)>>,
                <<Over(<<Atom(1)>>, <<Atom(1), Atom(2)>>)>> }
Big == IF Depth = 0 THEN T0 ELSE S1
VARIABLE inst
Inst(rule, a, b, c, n, left) == [rule |-> rule, a |-> a, b |-> b, c |-> c, n |-> n, left |-> left]
Init == inst \in
     { Inst(r, a, b, <<>>, 0, 0) : r \in {"FA", "BA"}, a \in Big, b \in Big }
  \cup { Inst(r, a, b, c, 0, 0) : r \in {"FC", "BC", "FX", "BX"}, a \in Sm, b \in Sm, c \in Sm }
  \cup { Inst("Curry", a, b, <<>>, n, l) : a \in { x \o y : x \in Sm, y \in T0 }, b \in Sm, n \in 1..3, l \in 0..1 }
Next == UNCHANGED inst
Spec == Init /\ [][Next]_inst
InvOver == \A l \in T0, r \in T0 : ToRigid(<<Over(l, r)>>) = ToRigid(l) \o TyL(ToRigid(r))
                                /\ ToRigid(<<Under(l, r)>>) = TyR(ToRigid(l)) \o ToRigid(r)
=============================================================================
